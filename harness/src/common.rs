//! Shared infrastructure: run context, record aggregation, evidence, verdicts.

use std::{
    collections::{BTreeMap, BTreeSet, HashSet},
    io::{BufRead, BufReader},
    process::{Command, Stdio},
    time::{Duration, Instant},
};

use rand::{Rng, SeedableRng, rngs::StdRng};
use serde::{Deserialize, Serialize};
use serde_json::{Value, json};

#[derive(Clone, Copy, Debug, PartialEq, Eq)]
pub enum Tier {
    Quick,
    Thorough,
}

impl Tier {
    pub fn as_str(&self) -> &'static str {
        match self {
            Tier::Quick => "quick",
            Tier::Thorough => "thorough",
        }
    }
    /// pick by tier
    pub fn pick<T>(&self, quick: T, thorough: T) -> T {
        match self {
            Tier::Quick => quick,
            Tier::Thorough => thorough,
        }
    }
}

#[derive(Clone, Debug, Serialize, Deserialize)]
pub struct Violation {
    pub signature: String,
    pub detail: Value,
}

/// What one worker observed. Merged by the parent.
#[derive(Clone, Debug, Default, Serialize, Deserialize)]
pub struct Report {
    pub evaluations: u64,
    pub nontrivial_hashes: BTreeSet<u64>,
    /// if a worker has too many distinct hashes to ship it only ships the count
    pub nontrivial_overflow: u64,
    pub stats: BTreeMap<String, u64>,
    pub samples: Vec<Value>,
    pub violations: Vec<Violation>,
    pub inconclusive: Vec<String>,
}

pub struct Ctx {
    pub prop: String,
    pub tier: Tier,
    pub seed: u64,
    pub worker: usize,
    pub workers: usize,
    pub budget: Duration,
    pub started: Instant,
    pub replay: Option<String>,
    pub extra: Vec<String>,
    pub report: Report,
    max_samples: usize,
    max_hashes: usize,
}

impl Ctx {
    pub fn new(
        prop: &str,
        tier: Tier,
        seed: u64,
        worker: usize,
        workers: usize,
        budget: Duration,
        replay: Option<String>,
    ) -> Self {
        Self {
            prop: prop.to_string(),
            tier,
            seed,
            worker,
            workers,
            budget,
            started: Instant::now(),
            replay,
            extra: vec![],
            report: Report::default(),
            max_samples: 3,
            max_hashes: 400_000,
        }
    }

    /// rng for this worker, stream `stream`
    pub fn rng(&self, stream: u64) -> StdRng {
        StdRng::seed_from_u64(
            self.seed
                .wrapping_mul(0x9E37_79B9_7F4A_7C15)
                .wrapping_add((self.worker as u64) << 32)
                .wrapping_add(stream),
        )
    }

    pub fn time_left(&self) -> bool {
        self.started.elapsed() < self.budget
    }

    pub fn exec(&mut self, hash: u64, nontrivial: bool) {
        self.report.evaluations += 1;
        if nontrivial {
            if self.report.nontrivial_hashes.len() < self.max_hashes {
                self.report.nontrivial_hashes.insert(hash);
            } else if !self.report.nontrivial_hashes.contains(&hash) {
                // conservative: not counted as distinct (could be a repeat of an uncounted one)
                self.report.nontrivial_overflow += 0;
            }
        }
    }

    pub fn stat(&mut self, key: &str, n: u64) {
        *self.report.stats.entry(key.to_string()).or_insert(0) += n;
    }

    pub fn stat_max(&mut self, key: &str, n: u64) {
        let e = self.report.stats.entry(format!("max.{key}")).or_insert(0);
        if n > *e {
            *e = n;
        }
    }

    pub fn sample(&mut self, v: impl FnOnce() -> Value) {
        if self.report.samples.len() < self.max_samples {
            self.report.samples.push(v());
        }
    }

    pub fn want_sample(&self) -> bool {
        self.report.samples.len() < self.max_samples
    }

    pub fn violation(&mut self, signature: impl Into<String>, detail: Value) {
        let signature = signature.into();
        // keep at most 5 per signature per worker
        let n = self
            .report
            .violations
            .iter()
            .filter(|v| v.signature == signature)
            .count();
        self.stat(&format!("violation.{signature}"), 1);
        if n < 5 {
            self.report.violations.push(Violation { signature, detail });
        }
    }

    pub fn inconclusive(&mut self, reason: impl Into<String>) {
        let reason = reason.into();
        self.stat("inconclusive", 1);
        if self.report.inconclusive.len() < 20 {
            self.report.inconclusive.push(reason);
        }
    }

    pub fn violations_so_far(&self) -> usize {
        self.report.violations.len()
    }
}

pub fn hash_of<T: std::hash::Hash>(t: &T) -> u64 {
    use std::hash::Hasher;
    let mut h = seahash::SeaHasher::new();
    t.hash(&mut h);
    h.finish()
}

pub fn hash_str(s: &str) -> u64 {
    seahash::hash(s.as_bytes())
}

#[derive(Clone, Debug, Deserialize)]
pub struct KnownFinding {
    pub property: String,
    pub signature: String,
    pub status: String, // "known" | "fixed"
    #[serde(default)]
    pub what: String,
    #[serde(default)]
    pub commit: String,
}

pub fn load_known_findings() -> Vec<KnownFinding> {
    let path = std::env::var("VERIF_KNOWN_FINDINGS")
        .unwrap_or_else(|_| "/verif/known_findings.json".to_string());
    match std::fs::read_to_string(&path) {
        Ok(s) => match serde_json::from_str::<Value>(&s) {
            Ok(v) => v
                .get("findings")
                .and_then(|f| serde_json::from_value::<Vec<KnownFinding>>(f.clone()).ok())
                .unwrap_or_default(),
            Err(_) => vec![],
        },
        Err(_) => vec![],
    }
}

pub struct CheckSpec {
    pub prop: &'static str,
    pub level: &'static str,
    pub rule: &'static str,
    pub assumptions: &'static [&'static str],
    /// minimum distinct non-trivial evaluations for a "held" verdict
    pub min_nontrivial: u64,
    /// stats keys that must be > 0 for a "held" verdict (non-vacuity)
    pub required_stats: &'static [&'static str],
}

pub struct ParentArgs {
    pub tier: Tier,
    pub seed: u64,
    pub workers: usize,
    pub budget: Duration,
    pub out: String,
    pub replay: Option<String>,
    pub extra: Vec<String>,
}

/// Spawn `workers` copies of this binary in worker mode, merge their reports,
/// write evidence, print verdict lines, return exit code.
pub fn run_parent(spec: &CheckSpec, args: &ParentArgs) -> i32 {
    let start = Instant::now();
    // Long runs of the node-based checks are cut into generations of fresh worker
    // processes: a node that was shut down keeps its database files open for as long as
    // background tasks of the agent hold a handle, so one process cannot run executions
    // for many minutes without running out of file descriptors.
    let pure = ["C04", "C08", "C09", "C18"].contains(&spec.prop);
    let gen_len = if !pure && args.budget > Duration::from_secs(150) { Duration::from_secs(120) } else { args.budget };
    let n_gens = ((args.budget.as_secs() + gen_len.as_secs() - 1) / gen_len.as_secs().max(1)).max(1);
    let mut merged = Report::default();
    for g in 0..n_gens {
        let seed_g = args.seed.wrapping_add(g.wrapping_mul(104_729));
        let (r, dead) = run_generation(spec, args, seed_g, gen_len);
        merge(&mut merged, r);
        for d in dead {
            merged.inconclusive.push(d);
            *merged.stats.entry("inconclusive".into()).or_insert(0) += 1;
        }
        if n_gens > 1 {
            *merged.stats.entry("worker_generations".into()).or_insert(0) += 1;
        }
    }
    if args.replay.is_some() {
        // a replay re-runs one witness: the non-vacuity rule of a whole run does not apply
        let one = CheckSpec {
            prop: spec.prop,
            level: spec.level,
            rule: spec.rule,
            assumptions: spec.assumptions,
            min_nontrivial: 0,
            required_stats: &[],
        };
        return finish(&one, args.tier, args.seed, &args.out, merged, start.elapsed(), args.workers);
    }
    finish(spec, args.tier, args.seed, &args.out, merged, start.elapsed(), args.workers)
}

fn run_generation(spec: &CheckSpec, args: &ParentArgs, seed: u64, budget: Duration) -> (Report, Vec<String>) {
    let exe = std::env::current_exe().expect("current_exe");
    let mut children = vec![];
    // generous watchdog (its firing is "inconclusive", never a verdict)
    let watchdog = budget * 6 + Duration::from_secs(300);

    for w in 0..args.workers {
        let mut cmd = Command::new(&exe);
        cmd.arg(spec.prop)
            .arg("--tier")
            .arg(args.tier.as_str())
            .arg("--seed")
            .arg(seed.to_string())
            .arg("--worker")
            .arg(w.to_string())
            .arg("--of")
            .arg(args.workers.to_string())
            .arg("--budget-s")
            .arg(budget.as_secs().to_string());
        if let Some(r) = &args.replay {
            cmd.arg("--replay").arg(r);
        }
        for e in &args.extra {
            cmd.arg(e);
        }
        cmd.stdout(Stdio::piped()).stderr(Stdio::inherit());
        match cmd.spawn() {
            Ok(c) => children.push((w, c)),
            Err(e) => {
                eprintln!("could not spawn worker {w}: {e}");
            }
        }
    }

    let pids: Vec<i32> = children.iter().map(|(_, c)| c.id() as i32).collect();
    let mut merged = Report::default();
    let mut dead_workers = vec![];
    let mut handles = vec![];
    for (w, mut child) in children {
        let stdout = child.stdout.take().unwrap();
        handles.push(std::thread::spawn(move || {
            let mut last: Option<Report> = None;
            let mut viols: Vec<Violation> = vec![];
            for line in BufReader::new(stdout).lines().map_while(Result::ok) {
                if let Some(rest) = line.strip_prefix("REPORT ") {
                    if let Ok(r) = serde_json::from_str::<Report>(rest) {
                        last = Some(r);
                    }
                } else if let Some(rest) = line.strip_prefix("VIOL ") {
                    if let Ok(v) = serde_json::from_str::<Violation>(rest) {
                        viols.push(v);
                    }
                } else {
                    eprintln!("[w{w}] {line}");
                }
            }
            // wait with watchdog
            let deadline = Instant::now() + Duration::from_secs(30);
            let status = loop {
                match child.try_wait() {
                    Ok(Some(s)) => break Some(s),
                    Ok(None) => {
                        if Instant::now() > deadline {
                            let _ = child.kill();
                            break child.wait().ok();
                        }
                        std::thread::sleep(Duration::from_millis(50));
                    }
                    Err(_) => break None,
                }
            };
            (w, last, viols, status)
        }));
    }

    // watchdog thread: kill everything if it takes far too long
    let done_flag = std::sync::Arc::new(std::sync::atomic::AtomicBool::new(false));
    {
        let done_flag = done_flag.clone();
        std::thread::spawn(move || {
            let t0 = Instant::now();
            while t0.elapsed() < watchdog {
                if done_flag.load(std::sync::atomic::Ordering::SeqCst) {
                    return;
                }
                std::thread::sleep(Duration::from_millis(200));
            }
            eprintln!("INCONCLUSIVE watchdog expired after {watchdog:?}");
            for pid in pids {
                unsafe {
                    libc::kill(pid, libc::SIGKILL);
                }
            }
        });
    }

    for h in handles {
        if let Ok((w, last, viols, status)) = h.join() {
            let ok = status.map(|s| s.success()).unwrap_or(false);
            match last {
                Some(r) => merge(&mut merged, r),
                None => {
                    // streamed violations still count
                    for v in viols {
                        merged.violations.push(v);
                    }
                    dead_workers.push(format!("worker {w} produced no report (status {status:?})"));
                }
            }
            if !ok && !dead_workers.iter().any(|d| d.starts_with(&format!("worker {w} "))) {
                dead_workers.push(format!("worker {w} exited with {status:?}"));
            }
        }
    }
    done_flag.store(true, std::sync::atomic::Ordering::SeqCst);
    (merged, dead_workers)
}

pub fn merge(into: &mut Report, r: Report) {
    into.evaluations += r.evaluations;
    into.nontrivial_hashes.extend(r.nontrivial_hashes);
    into.nontrivial_overflow += r.nontrivial_overflow;
    for (k, v) in r.stats {
        if k.starts_with("max.") {
            let e = into.stats.entry(k).or_insert(0);
            if v > *e {
                *e = v;
            }
        } else {
            *into.stats.entry(k).or_insert(0) += v;
        }
    }
    for s in r.samples {
        if into.samples.len() < 5 {
            into.samples.push(s);
        }
    }
    into.violations.extend(r.violations);
    for i in r.inconclusive {
        if into.inconclusive.len() < 40 {
            into.inconclusive.push(i);
        }
    }
}

/// Apply known findings, decide the verdict, write evidence, print lines.
pub fn finish(
    spec: &CheckSpec,
    tier: Tier,
    seed: u64,
    out: &str,
    merged: Report,
    wall: Duration,
    workers: usize,
) -> i32 {
    let known = load_known_findings();
    let mut known_hit: BTreeMap<String, (String, u64)> = BTreeMap::new();
    let mut new_viol: Vec<Violation> = vec![];
    let mut seen_sig: HashSet<String> = HashSet::new();
    for v in merged.violations.iter() {
        let k = known.iter().find(|k| {
            k.status == "known" && k.property == spec.prop && v.signature == k.signature
        });
        match k {
            Some(k) => {
                let e = known_hit
                    .entry(k.signature.clone())
                    .or_insert((k.what.clone(), 0));
                e.1 += 1;
            }
            None => {
                if seen_sig.insert(v.signature.clone()) || new_viol.len() < 10 {
                    new_viol.push(v.clone());
                }
            }
        }
    }

    let distinct = merged.nontrivial_hashes.len() as u64;
    let inconclusive_n = merged.stats.get("inconclusive").copied().unwrap_or(0);

    let mut missing: Vec<String> = vec![];
    // (min_nontrivial == 0 only for the replay of a single witness)
    let need = if spec.min_nontrivial == 0 { 0 } else { spec.min_nontrivial.max(2) };
    if distinct < need {
        missing.push(format!("distinct_nontrivial {} < required {}", distinct, need));
    }
    for k in spec.required_stats {
        if merged.stats.get(*k).copied().unwrap_or(0) == 0 {
            missing.push(format!("required observation '{k}' never made"));
        }
    }

    let verdict = if !new_viol.is_empty() {
        "violated"
    } else if !missing.is_empty() {
        "inconclusive"
    } else {
        "held"
    };

    // replay files for new violations
    let mut replay_paths = vec![];
    if !new_viol.is_empty() {
        let dir = "/verif/replays";
        let _ = std::fs::create_dir_all(dir);
        for (i, v) in new_viol.iter().enumerate().take(5) {
            let p = format!("{dir}/{}-{}-{}-{}.json", spec.prop, tier.as_str(), seed, i);
            let body = json!({
                "property": spec.prop, "tier": tier.as_str(), "seed": seed,
                "signature": v.signature, "detail": v.detail,
            });
            let _ = std::fs::write(&p, serde_json::to_vec_pretty(&body).unwrap());
            replay_paths.push(p);
        }
    }

    let mut coverage = serde_json::Map::new();
    coverage.insert("evaluations".into(), json!(merged.evaluations));
    coverage.insert("distinct_nontrivial".into(), json!(distinct));
    coverage.insert("rule".into(), json!(spec.rule));
    coverage.insert("samples".into(), json!(merged.samples));
    coverage.insert("workers".into(), json!(workers));
    coverage.insert("verdict".into(), json!(verdict));
    coverage.insert("observations".into(), json!(merged.stats));
    coverage.insert("inconclusive".into(), json!(inconclusive_n));
    coverage.insert("inconclusive_reasons".into(), json!(merged.inconclusive));
    coverage.insert("non_vacuity_missing".into(), json!(missing));
    coverage.insert(
        "known_findings_hit".into(),
        json!(
            known_hit
                .iter()
                .map(|(k, v)| json!({"signature": k, "what": v.0, "count": v.1}))
                .collect::<Vec<_>>()
        ),
    );
    coverage.insert(
        "violation_signatures".into(),
        json!(new_viol.iter().map(|v| v.signature.clone()).collect::<BTreeSet<_>>()),
    );
    let evidence = json!({
        "property_id": spec.prop,
        "tier": tier.as_str(),
        "seed": seed,
        "level": spec.level,
        "coverage": Value::Object(coverage),
        "assumptions": spec.assumptions,
        "wall_s": wall.as_secs_f64(),
        "violations": new_viol.len(),
    });
    if let Some(parent) = std::path::Path::new(out).parent() {
        let _ = std::fs::create_dir_all(parent);
    }
    if let Err(e) = std::fs::write(out, serde_json::to_vec_pretty(&evidence).unwrap()) {
        eprintln!("could not write evidence {out}: {e}");
    }

    for (sig, (what, n)) in known_hit.iter() {
        println!("KNOWN-FINDING: property={} {} [{}] (seen {}x)", spec.prop, what, sig, n);
    }
    println!(
        "SUMMARY property={} tier={} seed={} verdict={} evaluations={} distinct_nontrivial={} inconclusive={} wall_s={:.1}",
        spec.prop,
        tier.as_str(),
        seed,
        verdict,
        merged.evaluations,
        distinct,
        inconclusive_n,
        wall.as_secs_f64()
    );
    match verdict {
        "violated" => {
            for (i, v) in new_viol.iter().enumerate().take(5) {
                eprintln!(
                    "violation[{i}] {} :: {}",
                    v.signature,
                    truncate(&v.detail.to_string(), 1500)
                );
            }
            println!(
                "VIOLATION property={} replay={}",
                spec.prop,
                replay_paths.first().cloned().unwrap_or_default()
            );
            1
        }
        "inconclusive" => {
            println!("INCONCLUSIVE property={} {}", spec.prop, missing.join("; "));
            2
        }
        _ => 0,
    }
}

pub fn truncate(s: &str, n: usize) -> String {
    if s.len() <= n {
        s.to_string()
    } else {
        let mut end = n;
        while !s.is_char_boundary(end) {
            end -= 1;
        }
        format!("{}…", &s[..end])
    }
}

/// Emit the worker's final report on stdout.
pub fn emit_report(ctx: &Ctx) {
    use std::io::Write;
    let s = serde_json::to_string(&ctx.report).unwrap();
    let out = std::io::stdout();
    let mut l = out.lock();
    let _ = writeln!(l, "REPORT {s}");
    let _ = l.flush();
}

pub fn pick<'a, T>(rng: &mut impl Rng, xs: &'a [T]) -> &'a T {
    &xs[rng.random_range(0..xs.len())]
}

pub fn chance(rng: &mut impl Rng, permille: u32) -> bool {
    rng.random_range(0..1000) < permille
}
