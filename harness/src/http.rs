//! E2 — a full agent in-process (`start_with_config`: router, middleware, matcher
//! restore, real loops) and a tiny raw HTTP/1.1 client with full control over the
//! request bytes, able to follow NDJSON event streams.

use std::{
    net::SocketAddr,
    time::{Duration, Instant},
};

use klukai_agent::{agent::start_with_config, transport::Transport};
use klukai_types::{
    agent::{Agent, Bookie},
    config::{AuthzConfig, Config},
    tripwire::Tripwire,
};
use serde_json::Value;
use tokio::{
    io::{AsyncReadExt, AsyncWriteExt},
    net::TcpStream,
    sync::mpsc,
};

pub struct FullNode {
    pub agent: Agent,
    pub bookie: Bookie,
    pub transport: Transport,
    pub dir: tempfile::TempDir,
    pub api_addr: SocketAddr,
    pub tripwire_tx: mpsc::Sender<()>,
    pub conf: Config,
}

#[derive(Default)]
pub struct FullOpts {
    pub token: Option<String>,
    pub schema: Option<String>,
    pub perf: Option<Box<dyn FnOnce(&mut klukai_types::config::PerfConfig) + Send>>,
}

pub async fn start_full(dir: tempfile::TempDir, opts: FullOpts) -> Result<FullNode, String> {
    let mut conf = Config::builder()
        .db_path(dir.path().join("corrosion.db").display().to_string())
        .gossip_addr("127.0.0.1:0".parse().unwrap())
        .api_addr("127.0.0.1:0".parse().unwrap())
        .admin_path(dir.path().join("admin.sock").display().to_string())
        .build()
        .map_err(|e| e.to_string())?;
    if let Some(t) = opts.token.clone() {
        conf.api.authorization = Some(AuthzConfig::BearerToken(t));
    }
    if let Some(f) = opts.perf {
        f(&mut conf.perf);
    }
    let (tripwire, worker, tripwire_tx) = Tripwire::new_simple();
    tokio::spawn(worker);
    let (agent, bookie, transport, _handles) = start_with_config(conf.clone(), tripwire).await.map_err(|e| format!("start_with_config: {e}"))?;
    let api_addr = agent.api_addr();
    let node = FullNode {
        agent,
        bookie,
        transport,
        dir,
        api_addr,
        tripwire_tx,
        conf,
    };
    if let Some(schema) = opts.schema {
        let body = serde_json::to_vec(&vec![schema]).unwrap();
        let auth = opts.token.as_ref().map(|t| format!("Bearer {t}"));
        let mut headers: Vec<(&str, &str)> = vec![("content-type", "application/json")];
        if let Some(a) = auth.as_deref() {
            headers.push(("authorization", a));
        }
        let r = request(api_addr, "POST", "/v1/migrations", &headers, &body, Duration::from_secs(30)).await?;
        if r.status != 200 {
            return Err(format!("schema not applied: {} {}", r.status, String::from_utf8_lossy(&r.body)));
        }
    }
    Ok(node)
}

impl FullNode {
    pub async fn shutdown(self) -> tempfile::TempDir {
        let _ = self.tripwire_tx.send(()).await;
        self.dir
    }

    pub fn ro(&self) -> rusqlite::Result<klukai_types::sqlite::CrConn> {
        self.agent.pool().client_dedicated_readonly()
    }
}

#[derive(Debug, Clone)]
pub struct HttpResp {
    pub status: u16,
    pub headers: Vec<(String, String)>,
    pub body: Vec<u8>,
}

impl HttpResp {
    pub fn header(&self, name: &str) -> Option<&str> {
        self.headers.iter().find(|(k, _)| k.eq_ignore_ascii_case(name)).map(|(_, v)| v.as_str())
    }
    pub fn json(&self) -> Option<Value> {
        serde_json::from_slice(&self.body).ok()
    }
}

fn build_request(method: &str, path: &str, headers: &[(&str, &str)], body: &[u8]) -> Vec<u8> {
    let mut req = format!("{method} {path} HTTP/1.1\r\nhost: localhost\r\nconnection: close\r\n");
    for (k, v) in headers {
        req.push_str(&format!("{k}: {v}\r\n"));
    }
    if !body.is_empty() || method == "POST" || method == "PUT" || method == "PATCH" {
        req.push_str(&format!("content-length: {}\r\n", body.len()));
    }
    req.push_str("\r\n");
    let mut bytes = req.into_bytes();
    bytes.extend_from_slice(body);
    bytes
}

/// An open response whose body is consumed incrementally (chunked or until close).
pub struct Stream {
    sock: TcpStream,
    pub status: u16,
    pub headers: Vec<(String, String)>,
    raw: Vec<u8>,     // undecoded bytes
    decoded: Vec<u8>, // decoded body bytes not yet handed out
    chunked: bool,
    content_length: Option<usize>,
    consumed: usize,
    pub eof: bool,
    chunk_remaining: Option<usize>,
    need_crlf: bool,
}

pub async fn open(addr: SocketAddr, method: &str, path: &str, headers: &[(&str, &str)], body: &[u8], timeout: Duration) -> Result<Stream, String> {
    let mut sock = tokio::time::timeout(timeout, TcpStream::connect(addr)).await.map_err(|_| "connect timeout".to_string())?.map_err(|e| e.to_string())?;
    sock.write_all(&build_request(method, path, headers, body)).await.map_err(|e| e.to_string())?;
    let mut raw = Vec::new();
    let deadline = Instant::now() + timeout;
    let header_end;
    loop {
        if let Some(p) = raw.windows(4).position(|w| w == b"\r\n\r\n") {
            header_end = p + 4;
            break;
        }
        let mut buf = [0u8; 8192];
        let rem = deadline.saturating_duration_since(Instant::now());
        if rem.is_zero() {
            return Err("timeout waiting for response headers".into());
        }
        match tokio::time::timeout(rem, sock.read(&mut buf)).await {
            Ok(Ok(0)) => return Err("connection closed before headers".into()),
            Ok(Ok(n)) => raw.extend_from_slice(&buf[..n]),
            Ok(Err(e)) => return Err(e.to_string()),
            Err(_) => return Err("timeout waiting for response headers".into()),
        }
    }
    let head = String::from_utf8_lossy(&raw[..header_end]).to_string();
    let mut lines = head.split("\r\n");
    let status: u16 = lines.next().and_then(|l| l.split(' ').nth(1)).and_then(|s| s.parse().ok()).ok_or("bad status line")?;
    let headers: Vec<(String, String)> = lines
        .filter(|l| !l.is_empty())
        .filter_map(|l| l.split_once(':').map(|(k, v)| (k.trim().to_string(), v.trim().to_string())))
        .collect();
    let chunked = headers.iter().any(|(k, v)| k.eq_ignore_ascii_case("transfer-encoding") && v.to_ascii_lowercase().contains("chunked"));
    let content_length = headers.iter().find(|(k, _)| k.eq_ignore_ascii_case("content-length")).and_then(|(_, v)| v.parse().ok());
    let rest = raw[header_end..].to_vec();
    Ok(Stream {
        sock,
        status,
        headers,
        raw: rest,
        decoded: vec![],
        chunked,
        content_length,
        consumed: 0,
        eof: false,
        chunk_remaining: None,
        need_crlf: false,
    })
}

impl Stream {
    pub fn header(&self, name: &str) -> Option<&str> {
        self.headers.iter().find(|(k, _)| k.eq_ignore_ascii_case(name)).map(|(_, v)| v.as_str())
    }

    fn decode(&mut self) {
        if !self.chunked {
            let take = match self.content_length {
                Some(cl) => (cl - self.consumed).min(self.raw.len()),
                None => self.raw.len(),
            };
            self.decoded.extend(self.raw.drain(..take));
            self.consumed += take;
            if let Some(cl) = self.content_length
                && self.consumed >= cl
            {
                self.eof = true;
            }
            return;
        }
        loop {
            if self.need_crlf {
                if self.raw.len() < 2 {
                    return;
                }
                self.raw.drain(..2);
                self.need_crlf = false;
            }
            match self.chunk_remaining {
                None => {
                    let Some(p) = self.raw.windows(2).position(|w| w == b"\r\n") else { return };
                    let line = String::from_utf8_lossy(&self.raw[..p]).to_string();
                    let size = usize::from_str_radix(line.split(';').next().unwrap_or("").trim(), 16).unwrap_or(0);
                    self.raw.drain(..p + 2);
                    if size == 0 {
                        self.eof = true;
                        return;
                    }
                    self.chunk_remaining = Some(size);
                }
                Some(rem) => {
                    if self.raw.is_empty() {
                        return;
                    }
                    let take = rem.min(self.raw.len());
                    self.decoded.extend(self.raw.drain(..take));
                    if take == rem {
                        self.chunk_remaining = None;
                        self.need_crlf = true;
                    } else {
                        self.chunk_remaining = Some(rem - take);
                    }
                }
            }
        }
    }

    async fn fill(&mut self, timeout: Duration) -> Result<bool, String> {
        let mut buf = [0u8; 16384];
        match tokio::time::timeout(timeout, self.sock.read(&mut buf)).await {
            Ok(Ok(0)) => {
                self.eof = true;
                Ok(false)
            }
            Ok(Ok(n)) => {
                self.raw.extend_from_slice(&buf[..n]);
                Ok(true)
            }
            Ok(Err(e)) => {
                self.eof = true;
                Err(e.to_string())
            }
            Err(_) => Ok(false),
        }
    }

    /// next NDJSON line; None on timeout or end of stream (check `eof`)
    pub async fn next_line(&mut self, timeout: Duration) -> Option<String> {
        let deadline = Instant::now() + timeout;
        loop {
            self.decode();
            if let Some(p) = self.decoded.iter().position(|b| *b == b'\n') {
                let line: Vec<u8> = self.decoded.drain(..=p).collect();
                let s = String::from_utf8_lossy(&line[..line.len() - 1]).to_string();
                if s.is_empty() {
                    continue;
                }
                return Some(s);
            }
            if self.eof {
                if !self.decoded.is_empty() {
                    let line: Vec<u8> = self.decoded.drain(..).collect();
                    return Some(String::from_utf8_lossy(&line).to_string());
                }
                return None;
            }
            let rem = deadline.saturating_duration_since(Instant::now());
            if rem.is_zero() {
                return None;
            }
            match self.fill(rem).await {
                Ok(_) => {}
                Err(_) => {
                    self.eof = true;
                }
            }
        }
    }

    /// read the whole body (until end of message or close)
    pub async fn read_all(mut self, timeout: Duration) -> HttpResp {
        let deadline = Instant::now() + timeout;
        loop {
            self.decode();
            if self.eof {
                break;
            }
            let rem = deadline.saturating_duration_since(Instant::now());
            if rem.is_zero() {
                break;
            }
            if self.fill(rem).await.is_err() {
                break;
            }
        }
        self.decode();
        HttpResp {
            status: self.status,
            headers: self.headers,
            body: self.decoded,
        }
    }
}

pub async fn request(addr: SocketAddr, method: &str, path: &str, headers: &[(&str, &str)], body: &[u8], timeout: Duration) -> Result<HttpResp, String> {
    let s = open(addr, method, path, headers, body, timeout).await?;
    Ok(s.read_all(timeout).await)
}

/// only the status line and headers (for endpoints whose body never ends)
pub async fn status_only(addr: SocketAddr, method: &str, path: &str, headers: &[(&str, &str)], body: &[u8], timeout: Duration) -> Result<(u16, Vec<(String, String)>), String> {
    let s = open(addr, method, path, headers, body, timeout).await?;
    Ok((s.status, s.headers))
}
