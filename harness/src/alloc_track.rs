//! Counting global allocator: bytes requested inside a tracked window on the
//! current thread (used by C09 to bound decoder allocations by input size).

use std::{
    alloc::{GlobalAlloc, Layout, System},
    cell::Cell,
};

pub struct Counting;

thread_local! {
    static TRACK: Cell<bool> = const { Cell::new(false) };
    static TOTAL: Cell<u64> = const { Cell::new(0) };
    static MAX_SINGLE: Cell<u64> = const { Cell::new(0) };
}

#[inline]
fn note(size: usize) {
    // try_with: thread-local may be gone during thread teardown
    let _ = TRACK.try_with(|t| {
        if t.get() {
            let _ = TOTAL.try_with(|c| c.set(c.get().saturating_add(size as u64)));
            let _ = MAX_SINGLE.try_with(|c| {
                if size as u64 > c.get() {
                    c.set(size as u64)
                }
            });
        }
    });
}

unsafe impl GlobalAlloc for Counting {
    unsafe fn alloc(&self, layout: Layout) -> *mut u8 {
        note(layout.size());
        unsafe { System.alloc(layout) }
    }
    unsafe fn dealloc(&self, ptr: *mut u8, layout: Layout) {
        unsafe { System.dealloc(ptr, layout) }
    }
    unsafe fn alloc_zeroed(&self, layout: Layout) -> *mut u8 {
        note(layout.size());
        unsafe { System.alloc_zeroed(layout) }
    }
    unsafe fn realloc(&self, ptr: *mut u8, layout: Layout, new_size: usize) -> *mut u8 {
        if new_size > layout.size() {
            note(new_size - layout.size());
        }
        unsafe { System.realloc(ptr, layout, new_size) }
    }
}

#[global_allocator]
static GLOBAL: Counting = Counting;

pub fn start() {
    TOTAL.with(|c| c.set(0));
    MAX_SINGLE.with(|c| c.set(0));
    TRACK.with(|t| t.set(true));
}

/// returns (total bytes requested, largest single request) since `start`
pub fn stop() -> (u64, u64) {
    TRACK.with(|t| t.set(false));
    (TOTAL.with(|c| c.get()), MAX_SINGLE.with(|c| c.get()))
}
