//! C02 layer 1 — version bookkeeping (`BookedVersions` snapshot/insert_db/commit
//! and the persisted gap rows) against an independent set model, after every step.
//! Layer 2 (the real ingest glue incl. partial chunks and `generate_sync`) lives in
//! `sim::c02`; both are merged under property C02 by the `C02` check.

use std::{collections::BTreeSet, sync::Arc};

use klukai_types::{
    actor::ActorId,
    agent::{BookedVersions, migrate},
    base::CrsqlDbVersion,
    sqlite::{CrConn, setup_conn},
};
use rand::Rng;
use rangemap::RangeInclusiveSet;
use rusqlite::Connection;
use serde_json::{Value, json};
use uuid::Uuid;

use crate::common::{Ctx, hash_of};

pub struct L1 {
    pub conn: CrConn,
    pub actor: ActorId,
}

impl L1 {
    pub fn new() -> Result<Self, String> {
        let mut conn = CrConn::init(Connection::open_in_memory().map_err(|e| e.to_string())?)
            .map_err(|e| e.to_string())?;
        setup_conn(&conn).map_err(|e| e.to_string())?;
        migrate(Arc::new(uhlc::HLC::default()), &mut conn).map_err(|e| e.to_string())?;
        Ok(Self {
            conn,
            actor: ActorId(Uuid::from_bytes([9; 16])),
        })
    }

    fn reset(&self) {
        let _ = self.conn.execute("DELETE FROM __corro_bookkeeping_gaps", []);
    }

    fn gap_rows(&self) -> Vec<(u64, u64)> {
        let mut st = self
            .conn
            .prepare_cached("SELECT start, end FROM __corro_bookkeeping_gaps WHERE actor_id = ? ORDER BY start")
            .unwrap();
        st.query_map([self.actor], |r| Ok((r.get::<_, u64>(0)?, r.get::<_, u64>(1)?)))
            .unwrap()
            .collect::<Result<Vec<_>, _>>()
            .unwrap()
    }
}

#[derive(Clone, Debug, Hash)]
pub enum Op {
    /// insert a set of version ranges; committed or rolled back
    Insert { ranges: Vec<(u64, u64)>, commit: bool },
    /// rebuild the in-memory state from the database
    Reload,
}

fn model_needed(known: &BTreeSet<u64>, max: Option<u64>) -> Vec<(u64, u64)> {
    let mut out: Vec<(u64, u64)> = vec![];
    if let Some(max) = max {
        for v in 1..=max {
            if !known.contains(&v) {
                match out.last_mut() {
                    Some((_, e)) if *e + 1 == v => *e = v,
                    _ => out.push((v, v)),
                }
            }
        }
    }
    out
}

pub fn run_sequence(l1: &L1, ops: &[Op]) -> Result<(bool, u64), (String, Value)> {
    l1.reset();
    let mut bv = BookedVersions::new(l1.actor);
    let mut known: BTreeSet<u64> = BTreeSet::new();
    let mut max: Option<u64> = None;
    let mut nontrivial = false;
    let mut gap_rows_seen = 0u64;

    for (i, op) in ops.iter().enumerate() {
        match op {
            Op::Insert { ranges, commit } => {
                let set: RangeInclusiveSet<CrsqlDbVersion> = ranges
                    .iter()
                    .map(|(a, b)| CrsqlDbVersion(*a)..=CrsqlDbVersion(*b))
                    .collect();
                l1.conn.execute_batch("BEGIN").unwrap();
                let mut snap = bv.snapshot();
                let res = snap.insert_db(&l1.conn, set);
                match (res, commit) {
                    (Ok(()), true) => {
                        l1.conn.execute_batch("COMMIT").unwrap();
                        bv.commit_snapshot(snap);
                        for (a, b) in ranges {
                            for v in *a..=*b {
                                known.insert(v);
                            }
                            max = Some(max.map_or(*b, |m| m.max(*b)));
                        }
                    }
                    (Ok(()), false) => {
                        // the storing transaction did not commit: nothing may change
                        l1.conn.execute_batch("ROLLBACK").unwrap();
                        // the snapshot is discarded (its Drop has debug assertions about
                        // being drained; it is forgotten the way a failed request leaves it)
                        std::mem::forget(snap);
                        nontrivial = true;
                    }
                    (Err(e), _) => {
                        let _ = l1.conn.execute_batch("ROLLBACK");
                        std::mem::forget(snap);
                        return Err((
                            "bookkeeping/insert_db-failed".into(),
                            json!({"ops": format!("{:?}", &ops[..=i]), "error": e.to_string()}),
                        ));
                    }
                }
            }
            Op::Reload => {
                match BookedVersions::from_conn(&l1.conn, l1.actor) {
                    Ok(b2) => {
                        // `max` comes from cr-sqlite's own version table, which this layer
                        // does not write; compare the gap view only
                        let a: Vec<_> = bv.needed().iter().cloned().collect();
                        let b: Vec<_> = b2.needed().iter().cloned().collect();
                        if a != b {
                            return Err((
                                "bookkeeping/reloaded-gaps-differ-from-live".into(),
                                json!({"ops": format!("{:?}", &ops[..=i]), "live": format!("{a:?}"), "reloaded": format!("{b:?}")}),
                            ));
                        }
                    }
                    Err(e) => {
                        return Err((
                            "bookkeeping/from_conn-failed".into(),
                            json!({"ops": format!("{:?}", &ops[..=i]), "error": e.to_string()}),
                        ));
                    }
                }
            }
        }

        // ---- compare after every step
        let want = model_needed(&known, max);
        let live: Vec<(u64, u64)> = bv.needed().iter().map(|r| (r.start().0, r.end().0)).collect();
        let rows = l1.gap_rows();
        gap_rows_seen += rows.len() as u64;
        let ctxv = || json!({"ops": format!("{:?}", &ops[..=i]), "model_needed": want, "in_memory_needed": live, "gap_rows": rows, "max": max});
        if live != want {
            return Err(("bookkeeping/in-memory-needed-differs-from-set-model".into(), ctxv()));
        }
        if rows != want {
            // classify
            let mut sig = "bookkeeping/persisted-gaps-differ-from-set-model";
            for w in rows.windows(2) {
                if w[1].0 <= w[0].1 {
                    sig = "bookkeeping/persisted-gaps-overlap";
                } else if w[1].0 == w[0].1 + 1 {
                    sig = "bookkeeping/persisted-gaps-adjacent";
                }
            }
            if rows.iter().any(|(a, b)| *a < 1 || Some(*b) > max || a > b) {
                sig = "bookkeeping/persisted-gap-outside-1..head";
            }
            return Err((sig.into(), ctxv()));
        }
        if bv.last().map(|v| v.0) != max {
            return Err(("bookkeeping/head-differs-from-model".into(), ctxv()));
        }
        let hi = max.unwrap_or(0) + 2;
        for v in 1..=hi {
            let model_has = known.contains(&v);
            if bv.contains_version(&CrsqlDbVersion(v)) != model_has {
                return Err((
                    if model_has {
                        "bookkeeping/held-version-not-reported-as-held"
                    } else {
                        "bookkeeping/version-reported-held-but-never-stored"
                    }
                    .into(),
                    json!({"version": v, "ctx": ctxv()}),
                ));
            }
        }
        if !want.is_empty() {
            nontrivial = true;
        }
    }
    Ok((nontrivial, gap_rows_seen))
}

fn eval(ctx: &mut Ctx, l1: &L1, ops: &[Op]) {
    ctx.stat("l1.sequences", 1);
    ctx.stat("l1.steps", ops.len() as u64);
    let h = hash_of(&ops);
    match run_sequence(l1, ops) {
        Ok((nontrivial, rows)) => {
            ctx.stat("l1.gap_rows_compared", rows);
            ctx.exec(h, nontrivial);
            if nontrivial && ops.len() > 4 {
                ctx.sample(|| json!({"layer": 1, "ops": format!("{ops:?}")}));
            }
        }
        Err((sig, d)) => {
            ctx.exec(h, true);
            ctx.violation(sig, d);
        }
    }
}

pub fn run_l1(ctx: &mut Ctx) {
    let l1 = match L1::new() {
        Ok(l) => l,
        Err(e) => {
            ctx.inconclusive(format!("could not set up in-memory bookkeeping database: {e}"));
            return;
        }
    };
    let mut rng = ctx.rng(2);

    // ---- small scope: versions 1..=6, every sequence of up to 3 single-range inserts
    let mut ranges = vec![];
    for a in 1..=6u64 {
        for b in a..=6u64 {
            ranges.push((a, b));
        }
    }
    let n = ranges.len() as u64; // 21
    let max_len = ctx.tier.pick(2u32, 3u32);
    let mut idx = 0u64;
    let mut complete = true;
    'outer: for len in 1..=max_len {
        for code in 0..n.pow(len) {
            idx += 1;
            if idx % ctx.workers as u64 != ctx.worker as u64 {
                continue;
            }
            if !ctx.time_left() {
                complete = false;
                break 'outer;
            }
            let mut c = code;
            let mut ops: Vec<Op> = (0..len)
                .map(|_| {
                    let r = ranges[(c % n) as usize];
                    c /= n;
                    Op::Insert {
                        ranges: vec![r],
                        commit: true,
                    }
                })
                .collect();
            ops.push(Op::Reload);
            eval(ctx, &l1, &ops);
        }
    }
    if complete {
        ctx.stat("l1.small_scope_share_enumerated_completely", 1);
    }

    // ---- random: versions 1..=24, range sets, rollbacks, reloads
    let target = ctx.tier.pick(3_000u64, 120_000u64);
    let mut k = 0;
    while k < target && ctx.time_left() {
        k += 1;
        let hi = *crate::common::pick(&mut rng, &[6u64, 12, 24, 24, 200]);
        let len = rng.random_range(2..16);
        let ops: Vec<Op> = (0..len)
            .map(|_| {
                if rng.random_range(0..8) == 0 {
                    return Op::Reload;
                }
                let nr = match rng.random_range(0..6) {
                    0 => 2,
                    1 => 3,
                    2 => rng.random_range(1..6),
                    _ => 1,
                };
                let ranges = (0..nr)
                    .map(|_| {
                        let a = rng.random_range(1..=hi);
                        let w = match rng.random_range(0..4) {
                            0 => 0,
                            1 => rng.random_range(0..3),
                            _ => rng.random_range(0..(hi / 3).max(1)),
                        };
                        (a, (a + w).min(hi))
                    })
                    .collect();
                Op::Insert {
                    ranges,
                    commit: rng.random_range(0..8) != 0,
                }
            })
            .collect();
        eval(ctx, &l1, &ops);
    }
}
