//! C04 — sync requests ask for everything the peer can give and nothing it cannot.
//!
//! Oracle: set model of both advertised states; completeness and boundedness of
//! the real `compute_available_needs` output as set inclusions.

use std::collections::{BTreeMap, HashMap};
use std::ops::RangeInclusive;

use klukai_types::{
    actor::ActorId,
    base::{CrsqlDbVersion, CrsqlSeq},
    sync::{SyncNeedV1, SyncStateV1},
};
use rand::Rng;
use rangemap::RangeInclusiveSet;
use serde_json::{Value, json};
use uuid::Uuid;

use crate::{
    Check,
    common::{CheckSpec, Ctx, hash_str},
};

pub fn check() -> Check {
    Check {
        spec: CheckSpec {
            prop: "C04",
            level: "exploration",
            rule: "case = pair (our state, peer state) of well-formed SyncStateV1; small scope: one foreign actor, heads 0..=3, every classification of every version as held/needed/partial(one of 6 missing-seq patterns over seqs 0..=3) on both sides (enumerated completely in the thorough tier, seeded slice in quick), plus seeded random states with up to 8 actors and heads up to 10^4; non-trivial = the peer fully holds at least one version we lack or hold partially; distinct by hash of the rendered pair",
            assumptions: &[
                "well-formed states: need ranges and partial keys inside 1..=head, disjoint; partial missing ranges non-empty and inside 0..=last_seq",
                "over-asking inside the peer's head is recorded, not judged (the statement only bounds requests by the head)",
            ],
            min_nontrivial: 2_000,
            required_stats: &["pairs", "needs.full", "needs.partial", "peer_partial_vs_our_partial"],
        },
        budget: (25, 300),
        workers: (6, 14),
        run,
    }
}

fn aid(n: u8) -> ActorId {
    ActorId(Uuid::from_bytes([n; 16]))
}

/// Simple description of one side for one actor
#[derive(Clone, Debug, Default)]
pub struct Side {
    pub head: u64, // 0 = actor absent from heads
    pub explicit_zero_head: bool,
    pub need: RangeInclusiveSet<u64>,
    pub partial: BTreeMap<u64, RangeInclusiveSet<u64>>, // version -> missing seqs
}

fn to_state(me: ActorId, sides: &BTreeMap<ActorId, Side>) -> SyncStateV1 {
    let mut st = SyncStateV1 {
        actor_id: me,
        ..Default::default()
    };
    for (a, s) in sides {
        if s.head == 0 {
            if s.explicit_zero_head {
                st.heads.insert(*a, CrsqlDbVersion(0));
            }
            continue;
        }
        st.heads.insert(*a, CrsqlDbVersion(s.head));
        if !s.need.is_empty() {
            st.need.insert(
                *a,
                s.need
                    .iter()
                    .map(|r| CrsqlDbVersion(*r.start())..=CrsqlDbVersion(*r.end()))
                    .collect(),
            );
        }
        if !s.partial.is_empty() {
            st.partial_need.insert(
                *a,
                s.partial
                    .iter()
                    .map(|(v, m)| {
                        (
                            CrsqlDbVersion(*v),
                            m.iter()
                                .map(|r| CrsqlSeq(*r.start())..=CrsqlSeq(*r.end()))
                                .collect::<Vec<_>>(),
                        )
                    })
                    .collect(),
            );
        }
    }
    st
}

fn full_held(s: &Side) -> RangeInclusiveSet<u64> {
    let mut h = RangeInclusiveSet::new();
    if s.head == 0 {
        return h;
    }
    h.insert(1..=s.head);
    for r in s.need.iter() {
        h.remove(r.clone());
    }
    for v in s.partial.keys() {
        h.remove(*v..=*v);
    }
    h
}

fn render_side(s: &Side) -> Value {
    json!({
        "head": s.head,
        "need": s.need.iter().map(|r| [*r.start(), *r.end()]).collect::<Vec<_>>(),
        "partial_missing": s.partial.iter().map(|(v, m)| (v.to_string(), m.iter().map(|r| [*r.start(), *r.end()]).collect::<Vec<_>>())).collect::<BTreeMap<_, _>>(),
    })
}

pub struct PairResult {
    pub nontrivial: bool,
    pub full_needs: u64,
    pub partial_needs: u64,
    pub overask_versions: u64,
    pub both_partial: bool,
}

/// Check one pair. `ours`/`theirs`: per-actor sides. Returns violation on failure.
pub fn check_pair(
    me: ActorId,
    peer: ActorId,
    ours: &BTreeMap<ActorId, Side>,
    theirs: &BTreeMap<ActorId, Side>,
) -> Result<PairResult, (String, Value)> {
    let our_state = to_state(me, ours);
    let their_state = to_state(peer, theirs);
    // a panic on a well-formed pair is an observation (no request is produced at all)
    let needs: HashMap<ActorId, Vec<SyncNeedV1>> = match std::panic::catch_unwind(std::panic::AssertUnwindSafe(|| our_state.compute_available_needs(&their_state))) {
        Ok(n) => n,
        Err(p) => {
            let msg = p.downcast_ref::<String>().cloned().or_else(|| p.downcast_ref::<&str>().map(|s| s.to_string())).unwrap_or_else(|| "<non-string panic>".into());
            return Err((
                "completeness/compute_available_needs-panics-on-well-formed-states".into(),
                json!({
                    "panic": msg,
                    "ours": ours.iter().map(|(a, s)| (a.to_string(), render_side(s))).collect::<BTreeMap<_, _>>(),
                    "theirs": theirs.iter().map(|(a, s)| (a.to_string(), render_side(s))).collect::<BTreeMap<_, _>>(),
                }),
            ));
        }
    };

    let render = |needs: &HashMap<ActorId, Vec<SyncNeedV1>>| {
        json!({
            "me": me.to_string(), "peer": peer.to_string(),
            "ours": ours.iter().map(|(a, s)| (a.to_string(), render_side(s))).collect::<BTreeMap<_, _>>(),
            "theirs": theirs.iter().map(|(a, s)| (a.to_string(), render_side(s))).collect::<BTreeMap<_, _>>(),
            "needs": needs.iter().map(|(a, n)| (a.to_string(), format!("{n:?}"))).collect::<BTreeMap<_, _>>(),
        })
    };

    let mut res = PairResult {
        nontrivial: false,
        full_needs: 0,
        partial_needs: 0,
        overask_versions: 0,
        both_partial: false,
    };

    // ---- boundedness
    for (a, ns) in needs.iter() {
        if *a == me {
            return Err(("needs/for-own-actor".into(), render(&needs)));
        }
        let t = theirs.get(a).cloned().unwrap_or_default();
        if t.head == 0 && !ns.is_empty() {
            return Err(("needs/actor-peer-has-no-head-for".into(), render(&needs)));
        }
        for n in ns {
            match n {
                SyncNeedV1::Full { versions } => {
                    res.full_needs += 1;
                    if versions.start().0 == 0 {
                        return Err(("needs/version-zero".into(), render(&needs)));
                    }
                    if versions.start() > versions.end() {
                        return Err(("needs/inverted-range".into(), render(&needs)));
                    }
                    if versions.end().0 > t.head {
                        return Err(("needs/beyond-peer-head".into(), render(&needs)));
                    }
                }
                SyncNeedV1::Partial { version, seqs } => {
                    res.partial_needs += 1;
                    if version.0 == 0 || version.0 > t.head {
                        return Err(("needs/partial-beyond-peer-head".into(), render(&needs)));
                    }
                    if seqs.is_empty() || seqs.iter().any(|r| r.start() > r.end()) {
                        return Err(("needs/partial-empty-or-inverted-seqs".into(), render(&needs)));
                    }
                }
                SyncNeedV1::Empty { .. } => {
                    return Err(("needs/empty-need-emitted".into(), render(&needs)));
                }
            }
        }
    }

    // ---- completeness
    for (a, t) in theirs.iter() {
        if *a == me || t.head == 0 {
            continue;
        }
        let o = ours.get(a).cloned().unwrap_or_default();
        let t_full = full_held(t);
        let o_full = full_held(&o);
        let ns = needs.get(a).cloned().unwrap_or_default();
        let mut req_full: RangeInclusiveSet<u64> = RangeInclusiveSet::new();
        let mut req_partial: BTreeMap<u64, RangeInclusiveSet<u64>> = BTreeMap::new();
        for n in ns.iter() {
            match n {
                SyncNeedV1::Full { versions } => {
                    req_full.insert(versions.start().0..=versions.end().0);
                }
                SyncNeedV1::Partial { version, seqs } => {
                    let e = req_partial.entry(version.0).or_default();
                    for r in seqs {
                        e.insert(r.start().0..=r.end().0);
                    }
                }
                _ => {}
            }
        }
        // over-asking (information)
        for r in req_full.iter() {
            for ov in o_full.overlapping(r) {
                let s = (*r.start()).max(*ov.start());
                let e = (*r.end()).min(*ov.end());
                res.overask_versions += e - s + 1;
            }
        }

        // versions the peer fully holds
        for r in t_full.iter() {
            // lacking entirely: not fully held by us and not partial on our side
            let mut lacking: RangeInclusiveSet<u64> = RangeInclusiveSet::new();
            lacking.insert(r.clone());
            for h in o_full.overlapping(r) {
                lacking.remove(h.clone());
            }
            for v in o.partial.keys() {
                lacking.remove(*v..=*v);
            }
            for l in lacking.iter() {
                res.nontrivial = true;
                if req_full.gaps(l).next().is_some() {
                    return Err((
                        "completeness/fully-held-by-peer-lacked-by-us-not-requested".into(),
                        json!({"actor": a.to_string(), "lacking": [*l.start(), *l.end()], "pair": render(&needs)}),
                    ));
                }
            }
            // partial on our side, full on theirs
            for (v, missing) in o.partial.iter() {
                if !r.contains(v) {
                    continue;
                }
                res.nontrivial = true;
                if req_full.contains(v) {
                    continue;
                }
                let rp = req_partial.get(v).cloned().unwrap_or_default();
                for m in missing.iter() {
                    if rp.gaps(m).next().is_some() {
                        return Err((
                            "completeness/our-partial-missing-seqs-not-requested-from-full-holder".into(),
                            json!({"actor": a.to_string(), "version": v, "missing": [*m.start(), *m.end()], "pair": render(&needs)}),
                        ));
                    }
                }
            }
        }
        // both sides partial: seqs they have and we lack
        for (v, t_missing) in t.partial.iter() {
            if let Some(o_missing) = o.partial.get(v) {
                res.both_partial = true;
                if req_full.contains(v) {
                    continue;
                }
                let mut want = o_missing.clone();
                for tm in t_missing.iter() {
                    want.remove(tm.clone());
                }
                if !want.is_empty() {
                    res.nontrivial = true;
                }
                let rp = req_partial.get(v).cloned().unwrap_or_default();
                for w in want.iter() {
                    if rp.gaps(w).next().is_some() {
                        return Err((
                            "completeness/seqs-held-by-partial-peer-and-lacked-by-us-not-requested".into(),
                            json!({"actor": a.to_string(), "version": v, "want": [*w.start(), *w.end()], "pair": render(&needs)}),
                        ));
                    }
                }
            }
        }
    }
    Ok(res)
}

// six representative missing patterns over seqs 0..=3 (non-empty, not everything)
const PATTERNS: [&[RangeInclusive<u64>]; 6] = [
    &[0..=0],
    &[3..=3],
    &[1..=2],
    &[0..=1],
    &[2..=3],
    &[0..=0, 2..=2],
];

/// class options per version: 0 held, 1 need, 2.. partial pattern
const NCLASS: u64 = 2 + PATTERNS.len() as u64;

fn side_from_code(head: u64, mut code: u64) -> Side {
    let mut s = Side {
        head,
        ..Default::default()
    };
    for v in 1..=head {
        let c = code % NCLASS;
        code /= NCLASS;
        match c {
            0 => {}
            1 => {
                s.need.insert(v..=v);
            }
            p => {
                let mut m = RangeInclusiveSet::new();
                for r in PATTERNS[(p - 2) as usize] {
                    m.insert(r.clone());
                }
                s.partial.insert(v, m);
            }
        }
    }
    s
}

fn random_side(rng: &mut impl Rng, max_head: u64) -> Side {
    let head = match rng.random_range(0..10) {
        0 => 0,
        1 => 1,
        _ => rng.random_range(1..=max_head),
    };
    let mut s = Side {
        head,
        explicit_zero_head: head == 0 && rng.random_range(0..2) == 0,
        ..Default::default()
    };
    if head == 0 {
        return s;
    }
    let n_need = rng.random_range(0..4);
    for _ in 0..n_need {
        let a = rng.random_range(1..=head);
        let b = (a + rng.random_range(0..(head / 4).max(1))).min(head);
        s.need.insert(a..=b);
    }
    let n_part = rng.random_range(0..4);
    for _ in 0..n_part {
        let v = rng.random_range(1..=head);
        if s.need.contains(&v) {
            continue;
        }
        let last = rng.random_range(1..40u64);
        let mut m = RangeInclusiveSet::new();
        for _ in 0..rng.random_range(1..4) {
            let a = rng.random_range(0..=last);
            let b = (a + rng.random_range(0..5)).min(last);
            m.insert(a..=b);
        }
        // a partial holds at least one seq
        if m.iter().next().map(|r| *r.start() == 0 && *r.end() == last).unwrap_or(false) {
            m.remove(0..=0);
            if m.is_empty() {
                continue;
            }
        }
        s.partial.insert(v, m);
    }
    s
}

fn eval(
    ctx: &mut Ctx,
    me: ActorId,
    peer: ActorId,
    ours: &BTreeMap<ActorId, Side>,
    theirs: &BTreeMap<ActorId, Side>,
) {
    ctx.stat("pairs", 1);
    let key = format!("{ours:?}|{theirs:?}|{me}|{peer}");
    let h = hash_str(&key);
    match check_pair(me, peer, ours, theirs) {
        Ok(r) => {
            ctx.stat("needs.full", r.full_needs);
            ctx.stat("needs.partial", r.partial_needs);
            ctx.stat("overask.versions_already_held", r.overask_versions);
            if r.both_partial {
                ctx.stat("peer_partial_vs_our_partial", 1);
            }
            ctx.exec(h, r.nontrivial);
            if r.nontrivial && r.partial_needs > 0 && r.full_needs > 0 {
                ctx.sample(|| {
                    json!({
                        "ours": ours.iter().map(|(a, s)| (a.to_string(), render_side(s))).collect::<BTreeMap<_, _>>(),
                        "theirs": theirs.iter().map(|(a, s)| (a.to_string(), render_side(s))).collect::<BTreeMap<_, _>>(),
                        "full_needs": r.full_needs, "partial_needs": r.partial_needs,
                    })
                });
            }
        }
        Err((sig, detail)) => {
            ctx.exec(h, true);
            ctx.violation(sig, detail);
        }
    }
}

fn run(ctx: &mut Ctx) {
    std::panic::set_hook(Box::new(|_| {}));
    let mut rng = ctx.rng(4);
    let me = aid(1);
    let peer = aid(2);
    let a = aid(3);

    // ---- small scope: one foreign actor, heads 0..=3
    let exhaustive = ctx.tier == crate::common::Tier::Thorough;
    let mut idx = 0u64;
    let mut complete = true;
    'outer: for ho in 0..=3u64 {
        for ht in 0..=3u64 {
            let no = NCLASS.pow(ho as u32);
            let nt = NCLASS.pow(ht as u32);
            for co in 0..no {
                for ct in 0..nt {
                    idx += 1;
                    if idx % ctx.workers as u64 != ctx.worker as u64 {
                        continue;
                    }
                    if !exhaustive && rng.random_range(0..8) != 0 {
                        continue;
                    }
                    if !ctx.time_left() {
                        complete = false;
                        break 'outer;
                    }
                    let mut ours = BTreeMap::new();
                    let mut theirs = BTreeMap::new();
                    ours.insert(a, side_from_code(ho, co));
                    theirs.insert(a, side_from_code(ht, ct));
                    eval(ctx, me, peer, &ours, &theirs);
                }
            }
        }
    }
    if exhaustive && complete {
        ctx.stat("small_scope_enumerated_completely_by_worker", 1);
    }

    // ---- random larger states
    let target = ctx.tier.pick(30_000u64, 1_500_000u64);
    let mut n = 0;
    while n < target && ctx.time_left() {
        n += 1;
        let n_actors = rng.random_range(1..=8u8);
        let max_head = *crate::common::pick(&mut rng, &[3u64, 10, 100, 10_000]);
        let mut ours = BTreeMap::new();
        let mut theirs = BTreeMap::new();
        for i in 0..n_actors {
            // actor ids include `me` and `peer` sometimes
            let id = match rng.random_range(0..10) {
                0 => me,
                1 => peer,
                _ => aid(10 + i),
            };
            match rng.random_range(0..6) {
                0 => {
                    ours.insert(id, random_side(&mut rng, max_head));
                }
                1 => {
                    theirs.insert(id, random_side(&mut rng, max_head));
                }
                _ => {
                    let o = random_side(&mut rng, max_head);
                    let mut t = random_side(&mut rng, max_head);
                    // make shared partial versions likely, with compatible last_seq
                    if rng.random_range(0..2) == 0 {
                        for (v, m) in o.partial.iter() {
                            if *v <= t.head && !t.need.contains(v) && rng.random_range(0..2) == 0 {
                                let mut tm = RangeInclusiveSet::new();
                                let hi = m.iter().map(|r| *r.end()).max().unwrap_or(3) + 2;
                                let x = rng.random_range(0..=hi);
                                tm.insert(x..=(x + rng.random_range(0..3)).min(hi));
                                t.partial.insert(*v, tm);
                            }
                        }
                    }
                    ours.insert(id, o);
                    theirs.insert(id, t);
                }
            }
        }
        eval(ctx, me, peer, &ours, &theirs);
    }
}
