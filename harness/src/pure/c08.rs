//! C08 — changeset chunks tile the sequence range exactly.
//!
//! Oracle: the tiling predicate written directly over what the real
//! `ChunkedChanges` iterator / `chunk_range` yield.

use std::ops::RangeInclusive;

use klukai_agent::api::peer::verif_exports::{chunk_range, send_change_chunks};
use klukai_types::{
    api::{ColumnName, SqliteValue, TableName},
    base::{CrsqlDbVersion, CrsqlSeq},
    change::{Change, ChunkedChanges},
};
use rand::Rng;
use serde_json::json;

use crate::{
    Check,
    common::{CheckSpec, Ctx, hash_of},
};

pub fn check() -> Check {
    Check {
        spec: CheckSpec {
            prop: "C08",
            level: "exploration",
            rule: "case = (start,last,set of seqs,per-change sizes,limit schedule) for ChunkedChanges, the same case through the sync server's send_change_chunks loop (whole-version request and sub-range of a longer version; what arrives on the channel must tile the requested range), or (range,chunk size) for chunk_range; bounded-exhaustive over start<=3,last<=7,all seq subsets x 6 limits, then seeded random larger cases; non-trivial = at least 2 chunks produced or a hole/early end in the seq list; distinct by hash of the case",
            assumptions: &[
                "chunk size 0 for chunk_range is outside the function's domain (step_by(0) panics by contract)",
                "start <= last and seqs strictly increasing inside [start,last] (the property's domain)",
            ],
            min_nontrivial: 500,
            required_stats: &["chunker.cases", "chunk_range.cases", "chunker.multi_chunk", "chunker.limit_changed", "sender.cases", "sender.multi_chunk", "sender.empty_sub_range_answered"],
        },
        budget: (20, 240),
        workers: (4, 12),
        run,
    }
}

fn mk_change(seq: u64, val_len: usize) -> Change {
    Change {
        table: TableName("t".into()),
        pk: vec![1],
        cid: ColumnName("c".into()),
        val: SqliteValue::Text("x".repeat(val_len).into()),
        col_version: 1,
        db_version: CrsqlDbVersion(1),
        seq: CrsqlSeq(seq),
        site_id: [0; 16],
        cl: 1,
    }
}

pub struct Case {
    pub start: u64,
    pub last: u64,
    pub seqs: Vec<u64>,
    pub sizes: Vec<usize>,
    pub limits: Vec<usize>, // limit for chunk i (cycled)
    pub err_at: Option<usize>,
}

/// Run one case through the real iterator; returns Err(signature, detail) on violation
pub fn run_case(c: &Case) -> Result<(usize, bool), (String, serde_json::Value)> {
    let items: Vec<rusqlite::Result<Change>> = c
        .seqs
        .iter()
        .zip(c.sizes.iter())
        .enumerate()
        .map(|(i, (s, sz))| {
            if Some(i) == c.err_at {
                Err(rusqlite::Error::InvalidQuery)
            } else {
                Ok(mk_change(*s, *sz))
            }
        })
        .collect();
    let n_items = items.len();
    let mut chunked = ChunkedChanges::new(
        items.into_iter(),
        CrsqlSeq(c.start),
        CrsqlSeq(c.last),
        c.limits[0],
    );
    let mut out: Vec<(Vec<Change>, RangeInclusive<CrsqlSeq>)> = vec![];
    let mut errored = false;
    let mut limit_changed = false;
    let mut i = 0usize;
    loop {
        if i > n_items + 4 {
            return Err((
                "chunker/does-not-terminate".into(),
                json!({"case": describe(c)}),
            ));
        }
        match chunked.next() {
            None => break,
            Some(Err(_)) => {
                errored = true;
                break;
            }
            Some(Ok(item)) => out.push(item),
        }
        i += 1;
        let l = c.limits[i % c.limits.len()];
        if l != chunked.max_buf_size() {
            limit_changed = true;
        }
        chunked.set_max_buf_size(l);
    }
    let d = |what: &str| {
        (
            format!("chunker/{what}"),
            json!({"case": describe(c), "out": out.iter().map(|(ch, r)| json!({"range":[r.start().0, r.end().0], "seqs": ch.iter().map(|c| c.seq.0).collect::<Vec<_>>()})).collect::<Vec<_>>()}),
        )
    };
    if out.is_empty() && !errored {
        return Err(d("no-chunk"));
    }
    // contiguity, start, order, membership
    let mut expect_start = c.start;
    let mut all: Vec<u64> = vec![];
    for (idx, (changes, range)) in out.iter().enumerate() {
        if range.start().0 != expect_start {
            return Err(d(if range.start().0 < expect_start {
                "overlap"
            } else {
                "gap"
            }));
        }
        if range.end().0 < range.start().0 {
            return Err(d("inverted-range"));
        }
        if range.end().0 > c.last {
            return Err(d("beyond-last"));
        }
        for ch in changes {
            if ch.seq.0 < range.start().0 || ch.seq.0 > range.end().0 {
                return Err(d("change-outside-range"));
            }
            all.push(ch.seq.0);
        }
        if idx + 1 < out.len() && changes.is_empty() {
            return Err(d("empty-non-final-chunk"));
        }
        expect_start = range.end().0 + 1;
    }
    if !errored {
        if out.last().map(|(_, r)| r.end().0) != Some(c.last) {
            return Err(d("does-not-end-at-last"));
        }
        if all != c.seqs {
            return Err(d("changes-lost-duplicated-or-reordered"));
        }
        // a non-final chunk although nothing remains: the final chunk would be empty
        if out.len() > 1 && out.last().unwrap().0.is_empty() {
            return Err(d("non-final-chunk-with-nothing-remaining"));
        }
    } else {
        // prefix property
        let upto = c.err_at.unwrap_or(0);
        if all.len() > upto || all[..] != c.seqs[..all.len()] {
            return Err(d("prefix-broken-before-error"));
        }
    }
    Ok((out.len(), limit_changed))
}

/// The same case through the real `send_change_chunks` (the sync server's sender loop
/// over ChunkedChanges): what arrives on the channel must tile the requested range.
/// `version_last` is the version's last seq (>= the requested end).
pub fn run_sender_case(c: &Case, version_last: u64) -> Result<usize, (String, serde_json::Value)> {
    use klukai_types::{
        actor::ActorId,
        broadcast::{Changeset, Timestamp},
        sync::{SyncMessage, SyncMessageV1},
    };
    let items: Vec<rusqlite::Result<Change>> = c.seqs.iter().zip(c.sizes.iter()).map(|(s, sz)| Ok(mk_change(*s, *sz))).collect();
    let (tx, mut rx) = tokio::sync::mpsc::channel::<SyncMessage>(c.seqs.len() + 8);
    let chunked = ChunkedChanges::new(items.into_iter(), CrsqlSeq(c.start), CrsqlSeq(c.last), c.limits[0]);
    let actor = ActorId(uuid::Uuid::from_bytes([7; 16]));
    let res = send_change_chunks(&tx, chunked, actor, CrsqlDbVersion(1), CrsqlSeq(version_last), Timestamp::from(7u64));
    drop(tx);
    let mut out: Vec<(Vec<u64>, u64, u64, u64)> = vec![];
    while let Ok(m) = rx.try_recv() {
        if let SyncMessage::V1(SyncMessageV1::Changeset(cv)) = m
            && let Changeset::Full { changes, seqs, last_seq, .. } = cv.changeset
        {
            out.push((changes.iter().map(|c| c.seq.0).collect(), seqs.start().0, seqs.end().0, last_seq.0));
        }
    }
    let d = |what: &str| (format!("sender/{what}"), json!({"case": describe(c), "version_last_seq": version_last, "result": format!("{res:?}"), "sent": out.iter().map(|(s, a, b, l)| json!({"seqs": s, "range": [a, b], "last_seq": l})).collect::<Vec<_>>()}));
    if res.is_err() {
        return Err(d("returned-an-error"));
    }
    let whole_version = c.start == 0 && c.last == version_last;
    if out.is_empty() {
        // only an entirely empty answer for a whole version may be skipped (such a
        // version is answered as cleared elsewhere)
        if c.seqs.is_empty() && whole_version {
            return Ok(0);
        }
        return Err(d("requested-range-not-covered-by-any-changeset"));
    }
    let mut expect = c.start;
    let mut all = vec![];
    for (seqs, a, b, l) in out.iter() {
        if *a != expect {
            return Err(d(if *a < expect { "overlap" } else { "gap" }));
        }
        if *b < *a || *b > c.last {
            return Err(d("range-outside-request"));
        }
        if *l != version_last {
            return Err(d("wrong-last-seq"));
        }
        for s in seqs {
            if s < a || s > b {
                return Err(d("change-outside-range"));
            }
            all.push(*s);
        }
        expect = b + 1;
    }
    if expect != c.last + 1 {
        return Err(d("sent-changesets-stop-short-of-the-requested-range"));
    }
    if all != c.seqs {
        return Err(d("changes-lost-duplicated-or-reordered"));
    }
    Ok(out.len())
}

fn describe(c: &Case) -> serde_json::Value {
    json!({"start": c.start, "last": c.last, "seqs": c.seqs, "sizes": c.sizes, "limits": c.limits.iter().map(|l| if *l == usize::MAX { -1i64 } else { *l as i64 }).collect::<Vec<_>>(), "err_at": c.err_at})
}

pub fn check_chunk_range(start: u64, end: u64, size: usize) -> Result<usize, (String, serde_json::Value)> {
    let out = chunk_range(CrsqlDbVersion(start)..=CrsqlDbVersion(end), size);
    let d = |what: &str| {
        (
            format!("chunk_range/{what}"),
            json!({"start": start, "end": end, "size": size, "out": out.iter().take(20).map(|r| [r.start().0, r.end().0]).collect::<Vec<_>>()}),
        )
    };
    // union == [start,end], all inside
    let mut covered_to: Option<u64> = None; // highest covered, contiguous from start
    for r in out.iter() {
        if r.start().0 < start || r.end().0 > end {
            return Err(d("leaves-requested-range"));
        }
        if r.end().0 < r.start().0 {
            return Err(d("inverted-range"));
        }
        match covered_to {
            None => {
                if r.start().0 != start {
                    return Err(d("does-not-start-at-start"));
                }
                covered_to = Some(r.end().0);
            }
            Some(c) => {
                if r.start().0 > c + 1 {
                    return Err(d("hole"));
                }
                covered_to = Some(c.max(r.end().0));
            }
        }
    }
    if covered_to != Some(end) {
        return Err(d("union-not-equal"));
    }
    Ok(out.len())
}

const SIZES: [usize; 3] = [1, 40, 8200];
const LIMITS: [usize; 6] = [0, 1, 100, 200, 8192, usize::MAX];

fn run(ctx: &mut Ctx) {
    let mut rng = ctx.rng(8);
    // ---- bounded exhaustive part, sharded over workers by case index
    let mut idx = 0u64;
    for start in 0..=3u64 {
        for last in start..=7u64 {
            let width = (last - start + 1) as u32;
            for mask in 0..(1u32 << width) {
                for (li, limit) in LIMITS.iter().enumerate() {
                    idx += 1;
                    if idx % ctx.workers as u64 != ctx.worker as u64 {
                        continue;
                    }
                    let seqs: Vec<u64> = (0..width)
                        .filter(|b| mask & (1 << b) != 0)
                        .map(|b| start + b as u64)
                        .collect();
                    // two size patterns per case: uniform small, and random
                    for pat in 0..2 {
                        let sizes: Vec<usize> = seqs
                            .iter()
                            .map(|_| {
                                if pat == 0 {
                                    40
                                } else {
                                    SIZES[rng.random_range(0..3)]
                                }
                            })
                            .collect();
                        let limits = if pat == 0 {
                            vec![*limit]
                        } else {
                            vec![*limit, LIMITS[(li + 1 + rng.random_range(0..5)) % 6], LIMITS[rng.random_range(0..6)]]
                        };
                        let case = Case {
                            start,
                            last,
                            seqs: seqs.clone(),
                            sizes,
                            limits,
                            err_at: None,
                        };
                        eval_case(ctx, &case);
                    }
                }
            }
        }
    }
    ctx.stat("chunker.exhaustive_small_scope_done", 1);

    // chunk_range small scope exhaustive
    for start in 0..=12u64 {
        for end in start..=40u64 {
            for size in 1..=16usize {
                idx += 1;
                if idx % ctx.workers as u64 != ctx.worker as u64 {
                    continue;
                }
                eval_range(ctx, start, end, size);
            }
        }
    }

    // ---- random larger cases until budget or count
    let target = ctx.tier.pick(4_000u64, 400_000u64);
    let mut n = 0;
    while n < target && ctx.time_left() {
        n += 1;
        if n % 4 == 0 {
            let start = rng.random_range(0..1_000_000u64);
            let len = rng.random_range(0..10_000u64);
            let size = rng.random_range(1..=64usize);
            eval_range(ctx, start, start + len, size);
            continue;
        }
        let start = rng.random_range(0..50u64);
        let width = rng.random_range(1..if n % 50 == 0 { 10_000u64 } else { 200 });
        let last = start + width - 1;
        let density = rng.random_range(1..=10);
        let mut seqs = vec![];
        let stop_early = rng.random_range(0..4) == 0;
        let stop_at = if stop_early {
            start + rng.random_range(0..width)
        } else {
            last
        };
        for s in start..=stop_at {
            if rng.random_range(0..10) < density {
                seqs.push(s);
            }
        }
        let sizes: Vec<usize> = seqs
            .iter()
            .map(|_| match rng.random_range(0..10) {
                0 => 8200,
                1 => 2000,
                _ => rng.random_range(1..200),
            })
            .collect();
        let nl = rng.random_range(1..4);
        let limits: Vec<usize> = (0..nl)
            .map(|_| match rng.random_range(0..6) {
                0 => 0,
                1 => usize::MAX,
                2 => 8192,
                3 => 1024,
                _ => rng.random_range(1..20_000),
            })
            .collect();
        let err_at = if rng.random_range(0..20) == 0 && !seqs.is_empty() {
            Some(rng.random_range(0..seqs.len()))
        } else {
            None
        };
        let case = Case {
            start,
            last,
            seqs,
            sizes,
            limits,
            err_at,
        };
        eval_case(ctx, &case);
    }
}

fn eval_case(ctx: &mut Ctx, case: &Case) {
    if case.err_at.is_none() {
        // whole-version request and a request for a sub-range of a longer version
        for extra in [0u64, 2] {
            ctx.stat("sender.cases", 1);
            match run_sender_case(case, case.last + extra) {
                Ok(n) => {
                    if n > 1 {
                        ctx.stat("sender.multi_chunk", 1);
                    }
                    if case.seqs.is_empty() && n > 0 {
                        ctx.stat("sender.empty_sub_range_answered", 1);
                    }
                }
                Err((sig, detail)) => ctx.violation(sig, detail),
            }
        }
    }
    ctx.stat("chunker.cases", 1);
    let h = hash_of(&(case.start, case.last, &case.seqs, &case.sizes, &case.limits, case.err_at));
    let holes = case.seqs.len() as u64 != case.last - case.start + 1;
    match run_case(case) {
        Ok((chunks, limit_changed)) => {
            if chunks > 1 {
                ctx.stat("chunker.multi_chunk", 1);
            }
            if limit_changed {
                ctx.stat("chunker.limit_changed", 1);
            }
            if case.err_at.is_some() {
                ctx.stat("chunker.iterator_error_cases", 1);
            }
            if case.seqs.is_empty() {
                ctx.stat("chunker.empty_list", 1);
            }
            ctx.stat_max("chunker.chunks", chunks as u64);
            ctx.exec(h, chunks > 1 || holes);
            if chunks > 2 && holes {
                ctx.sample(|| json!({"kind": "chunker", "case": describe(case), "chunks": chunks}));
            }
        }
        Err((sig, detail)) => {
            ctx.exec(h, true);
            ctx.violation(sig, detail);
        }
    }
}

fn eval_range(ctx: &mut Ctx, start: u64, end: u64, size: usize) {
    ctx.stat("chunk_range.cases", 1);
    let h = hash_of(&("r", start, end, size));
    match check_chunk_range(start, end, size) {
        Ok(n) => {
            ctx.exec(h, n > 1);
            if n > 3 && ctx.report.samples.len() < 3 && ctx.report.samples.iter().all(|s| s["kind"] != "chunk_range") {
                ctx.sample(|| json!({"kind": "chunk_range", "start": start, "end": end, "size": size, "subranges": n}));
            }
        }
        Err((sig, detail)) => {
            ctx.exec(h, true);
            ctx.violation(sig, detail);
        }
    }
}
