//! Checks over pure functions (engine E3): generated inputs, real function,
//! small executable reference model.

pub mod c02;
pub mod c04;
pub mod c08;
pub mod c09;
pub mod c18;

/// child modes used by subprocess engines; returns Some(exit code) when handled
pub fn child_mode(mode: &str, extra: &[String]) -> Option<i32> {
    match mode {
        "decode-batch" => Some(c09::child_decode_batch(extra)),
        "c19-reader" => Some(crate::sim::c19::reader_main(extra)),
        "probe-rangemap" => {
            probe_rangemap();
            Some(0)
        }
        _ => None,
    }
}

#[allow(dead_code)]
pub fn probe_rangemap() {
    use klukai_types::base::CrsqlDbVersion as V;
    use rangemap::RangeInclusiveMap;
    let mut m: RangeInclusiveMap<V, &str> = RangeInclusiveMap::new();
    m.insert(V(2)..=V(2), "A");
    m.insert(V(3)..=V(3), "B");
    println!("1: {m:?}");
    m.insert(V(3)..=V(3), "C");
    println!("2: {m:?}");
    let mut m: RangeInclusiveMap<u64, &str> = RangeInclusiveMap::new();
    m.insert(2..=2, "A");
    m.insert(3..=3, "B");
    m.insert(3..=3, "C");
    println!("u64: {m:?}");
    let mut m: RangeInclusiveMap<V, &str> = RangeInclusiveMap::new();
    m.insert(V(3)..=V(3), "B");
    m.insert(V(2)..=V(2), "A");
    m.insert(V(3)..=V(3), "C");
    println!("3: {m:?}");
}
