//! Checks over pure functions (engine E3): generated inputs, real function,
//! small executable reference model.

pub mod c02;
pub mod c04;
pub mod c08;
pub mod c09;
pub mod c18;

/// child modes used by subprocess engines; returns Some(exit code) when handled
pub fn child_mode(mode: &str, extra: &[String]) -> Option<i32> {
    match mode {
        "decode-batch" => Some(c09::child_decode_batch(extra)),
        "c19-reader" => Some(crate::sim::c19::reader_main(extra)),
        "resurrect-experiment" => {
            let rt = tokio::runtime::Builder::new_multi_thread().worker_threads(2).enable_all().build().unwrap();
            rt.block_on(resurrect_experiment(extra));
            Some(0)
        }
        "crsql-order-experiment" => {
            crsql_order_experiment();
            Some(0)
        }
        "probe-rangemap" => {
            probe_rangemap();
            Some(0)
        }
        _ => None,
    }
}

#[allow(dead_code)]
pub fn probe_rangemap() {
    use klukai_types::base::CrsqlDbVersion as V;
    use rangemap::RangeInclusiveMap;
    let mut m: RangeInclusiveMap<V, &str> = RangeInclusiveMap::new();
    m.insert(V(2)..=V(2), "A");
    m.insert(V(3)..=V(3), "B");
    println!("1: {m:?}");
    m.insert(V(3)..=V(3), "C");
    println!("2: {m:?}");
    let mut m: RangeInclusiveMap<u64, &str> = RangeInclusiveMap::new();
    m.insert(2..=2, "A");
    m.insert(3..=3, "B");
    m.insert(3..=3, "C");
    println!("u64: {m:?}");
    let mut m: RangeInclusiveMap<V, &str> = RangeInclusiveMap::new();
    m.insert(V(3)..=V(3), "B");
    m.insert(V(2)..=V(2), "A");
    m.insert(V(3)..=V(3), "C");
    println!("3: {m:?}");
}


/// Standalone look at the loaded cr-sqlite extension (no corrosion code involved): a row is
/// inserted, deleted, re-inserted (causal length 3) and one of its columns updated; a second
/// database receives the update's change before the re-insert's changes.
pub fn crsql_order_experiment() {
    use klukai_types::sqlite::CrConn;
    let mk = || {
        let c = CrConn::init(rusqlite::Connection::open_in_memory().unwrap()).unwrap();
        c.execute_batch("CREATE TABLE t1 (id INTEGER NOT NULL PRIMARY KEY, a TEXT NOT NULL DEFAULT '', b INTEGER NOT NULL DEFAULT 0, c TEXT); SELECT crsql_as_crr('t1');").unwrap();
        c
    };
    type Row = (String, Vec<u8>, String, rusqlite::types::Value, i64, i64, Vec<u8>, i64, i64);
    let a = mk();
    for sql in ["INSERT INTO t1 (id,a,b) VALUES (3,'one',1)", "DELETE FROM t1 WHERE id=3", "INSERT INTO t1 (id,a,b) VALUES (3,'two',2)", "UPDATE t1 SET c='cee' WHERE id=3"] {
        a.execute_batch(&format!("BEGIN; {sql}; COMMIT;")).unwrap();
    }
    let rows: Vec<Row> = a
        .prepare(r#"SELECT "table",pk,cid,val,col_version,db_version,site_id,cl,seq FROM crsql_changes ORDER BY db_version,seq"#)
        .unwrap()
        .query_map([], |r| Ok((r.get(0)?, r.get(1)?, r.get(2)?, r.get(3)?, r.get(4)?, r.get(5)?, r.get(6)?, r.get(7)?, r.get(8)?)))
        .unwrap()
        .map(|x| x.unwrap())
        .collect();
    for r in &rows {
        println!("origin: {} {:?} cv{} dbv{} cl{} seq{}", r.2, r.3, r.4, r.5, r.7, r.8);
    }
    let apply = |c: &CrConn, rs: &[&Row]| {
        for r in rs {
            c.execute(r#"INSERT INTO crsql_changes ("table",pk,cid,val,col_version,db_version,site_id,cl,seq) VALUES (?,?,?,?,?,?,?,?,?)"#, rusqlite::params![r.0, r.1, r.2, r.3, r.4, r.5, r.6, r.7, r.8]).unwrap();
        }
    };
    let show = |name: &str, c: &CrConn| {
        let t: Vec<String> = c.prepare("SELECT id,a,b,quote(c) FROM t1").unwrap().query_map([], |r| Ok(format!("({},{},{},{})", r.get::<_, i64>(0)?, r.get::<_, String>(1)?, r.get::<_, i64>(2)?, r.get::<_, String>(3)?))).unwrap().map(|x| x.unwrap()).collect();
        println!("{name}: table {t:?}");
        let ch: Vec<String> = c.prepare("SELECT cid, quote(val), col_version, db_version, cl, seq FROM crsql_changes").unwrap().query_map([], |r| Ok(format!("{} {} cv{} dbv{} cl{} seq{}", r.get::<_, String>(0)?, r.get::<_, String>(1)?, r.get::<_, i64>(2)?, r.get::<_, i64>(3)?, r.get::<_, i64>(4)?, r.get::<_, i64>(5)?))).unwrap().map(|x| x.unwrap()).collect();
        println!("{name}: changes {ch:?}");
    };
    let max = rows.iter().map(|r| r.5).max().unwrap();
    let upd: Vec<&Row> = rows.iter().filter(|r| r.5 == max).collect();
    let reins: Vec<&Row> = rows.iter().filter(|r| r.5 == max - 1).collect();
    let b = mk();
    apply(&b, &upd);
    show("update first, after the update", &b);
    apply(&b, &reins);
    show("update first, after the re-insert", &b);
    let c = mk();
    apply(&c, &reins);
    apply(&c, &upd);
    show("origin order", &c);
    // the receiver has its own live row with the same key (causal length 1)
    let d = mk();
    d.execute_batch("BEGIN; INSERT INTO t1 (id,a,b,c) VALUES (3,'mine',7,'mine-c'); COMMIT;").unwrap();
    show("receiver with its own row (cl 1), before", &d);
    apply(&d, &upd);
    show("receiver with its own row (cl 1), after the update (cl 3)", &d);
    apply(&d, &reins);
    show("receiver with its own row (cl 1), after update then re-insert", &d);
    let e = mk();
    e.execute_batch("BEGIN; INSERT INTO t1 (id,a,b,c) VALUES (3,'mine',7,'mine-c'); COMMIT;").unwrap();
    apply(&e, &reins);
    apply(&e, &upd);
    show("receiver with its own row (cl 1), origin order", &e);
}


/// A column change with causal length 3 for a row this node has never seen, delivered through
/// the real ingest function, alone or together with other changesets in one call.
pub async fn resurrect_experiment(extra: &[String]) {
    use crate::sim::{NodeOpts, new_node};
    use klukai_types::{
        actor::ActorId,
        api::{ColumnName, SqliteValue, TableName},
        base::{CrsqlDbVersion, CrsqlSeq},
        broadcast::{ChangeSource, ChangeV1, Changeset, Timestamp},
        change::Change,
        pubsub::pack_columns,
    };
    let with_other = extra.first().map(|s| s == "batch").unwrap_or(false);
    let node = new_node(0, NodeOpts { serve_sync: false, ..Default::default() }).await.unwrap();
    let actor = ActorId(uuid::Uuid::from_bytes([9; 16]));
    let mk = |version: u64, table: &str, id: i64, cid: &str, val: SqliteValue, cv: i64, cl: i64| ChangeV1 {
        actor_id: actor,
        changeset: Changeset::Full {
            version: CrsqlDbVersion(version),
            changes: vec![Change {
                table: TableName(table.into()),
                pk: pack_columns(&[SqliteValue::Integer(id)]).unwrap(),
                cid: ColumnName(cid.into()),
                val,
                col_version: cv,
                db_version: CrsqlDbVersion(version),
                seq: CrsqlSeq(0),
                site_id: actor.to_bytes(),
                cl,
            }],
            seqs: CrsqlSeq(0)..=CrsqlSeq(0),
            last_seq: CrsqlSeq(0),
            ts: Timestamp::from(version << 32),
        },
    };
    let mut batch = vec![(mk(7, "t1", 3, "c", SqliteValue::Text("cee".into()), 2, 3), ChangeSource::Sync)];
    if with_other {
        batch.push((mk(4, "t3", 50, "payload", SqliteValue::Text("x".into()), 1, 1), ChangeSource::Sync));
        batch.insert(0, (mk(2, "t3", 51, "payload", SqliteValue::Text("y".into()), 1, 1), ChangeSource::Sync));
    }
    if extra.first().map(|s| s == "partial").unwrap_or(false) {
        // plus a partial chunk (seq 2 of 0..=2) of an older version touching the same row
        let mut p = mk(1, "t1", 3, "c", SqliteValue::Text("old".into()), 1, 1);
        if let Changeset::Full { changes, seqs, last_seq, .. } = &mut p.changeset {
            changes[0].seq = CrsqlSeq(2);
            *seqs = CrsqlSeq(2)..=CrsqlSeq(2);
            *last_seq = CrsqlSeq(2);
        }
        batch.push((p, ChangeSource::Sync));
    }
    node.deliver(batch).await.unwrap();
    let c = node.ro().unwrap();
    let rows: Vec<String> = c
        .prepare(r#"SELECT "table", cid, quote(val), col_version, db_version, seq, cl FROM crsql_changes ORDER BY 1, 2"#)
        .unwrap()
        .query_map([], |r| Ok(format!("{}.{}={} cv{} dbv{} seq{} cl{}", r.get::<_, String>(0)?, r.get::<_, String>(1)?, r.get::<_, String>(2)?, r.get::<_, i64>(3)?, r.get::<_, i64>(4)?, r.get::<_, i64>(5)?, r.get::<_, i64>(6)?)))
        .unwrap()
        .map(|x| x.unwrap())
        .collect();
    println!("after ingest (batch={with_other}): {rows:?}");
    let t: Vec<String> = c.prepare("SELECT id, a, b, quote(c) FROM t1").unwrap().query_map([], |r| Ok(format!("({},{},{},{})", r.get::<_, i64>(0)?, r.get::<_, String>(1)?, r.get::<_, i64>(2)?, r.get::<_, String>(3)?))).unwrap().map(|x| x.unwrap()).collect();
    println!("t1: {t:?}");
}
