//! Checks over pure functions (engine E3): generated inputs, real function,
//! small executable reference model.

pub mod c02;
pub mod c04;
pub mod c08;
pub mod c09;
pub mod c18;

/// child modes used by subprocess engines; returns Some(exit code) when handled
pub fn child_mode(mode: &str, extra: &[String]) -> Option<i32> {
    match mode {
        "decode-batch" => Some(c09::child_decode_batch(extra)),
        _ => None,
    }
}
