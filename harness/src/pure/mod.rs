//! Checks over pure functions (engine E3): generated inputs, real function,
//! small executable reference model.

pub mod c04;
pub mod c08;

/// child modes used by subprocess engines; returns Some(exit code) when handled
pub fn child_mode(_mode: &str, _extra: &[String]) -> Option<i32> {
    None
}
