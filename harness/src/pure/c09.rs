//! C09 — binary codecs round-trip every value and survive arbitrary peer bytes.
//!
//! Engines: E3 (round trip, pack/unpack differential against the loaded
//! cr-sqlite extension), E6 (hostile bytes decoded in a child process under
//! RLIMIT_AS with a counting allocator).

use std::{
    io::{BufRead, BufReader, Read, Write},
    panic::{AssertUnwindSafe, catch_unwind},
    process::{Command, Stdio},
    sync::Mutex,
};

use klukai_types::{
    actor::{ActorId, ClusterId},
    api::{ColumnName, Real, SqliteValue, TableName},
    base::{CrsqlDbVersion, CrsqlSeq},
    broadcast::{
        BiPayload, BiPayloadV1, BroadcastV1, ChangeV1, Changeset, Timestamp, UniPayload,
        UniPayloadV1,
    },
    change::Change,
    pubsub::{pack_columns, unpack_columns},
    sqlite::CrConn,
    sync::{SyncMessage, SyncMessageV1, SyncNeedV1, SyncRejectionV1, SyncStateV1, SyncTraceContextV1},
};
use rand::Rng;
use serde_json::{Value, json};
use speedy::{Readable, Writable};
use uuid::Uuid;

use crate::{
    Check, alloc_track,
    common::{CheckSpec, Ctx, chance, hash_of, pick, truncate},
};

pub fn check() -> Check {
    Check {
        spec: CheckSpec {
            prop: "C09",
            level: "exploration",
            rule: "round trip: seeded generator over every protocol type/variant (UniPayload, BiPayload, SyncMessage x5, SyncStateV1, SyncNeedV1 x3, Changeset x3, Change, SqliteValue incl. NaN/inf/-0/i64 extremes/empty and large text+blob, default_on_eof fields absent) -> encode -> real decoder -> re-encode must be byte-identical; pack_columns compared byte-for-byte with the loaded extension's crsql_pack_columns and unpack(pack(v))==v (0..=255 columns); hostile: structure-aware mutations of valid frames (every tag/length byte position, 32/64-bit length attacks up to 2^64-1, truncation at every length, splices between message types, UTF-8 damage incl. 24-byte texts with every last byte) and raw random bytes fed to the three real decode entry points and unpack_columns inside a child process (RLIMIT_AS 4 GiB, counting allocator, panic capture); interpreter/sanitizer stage: the pure-Rust paths (all decoders on mutated frames and raw bytes, pack/unpack round trip, ChunkedChanges, compute_available_needs, Members) run under Miri in 8 shards of /verif/miri (observations sanitizer.miri_*), and a batch of hostile inputs is decoded by the child under valgrind memcheck (sanitizer.valgrind_*); an Undefined Behavior report or a memcheck error is a violation, a tool that cannot run is inconclusive; non-trivial = hostile input that is not byte-identical to a valid frame, or a round-trip value with a non-empty payload; distinct by hash of the bytes",
            assumptions: &[
                "allocation bound used as the meaning of 'memory unrelated to the input size': bytes requested during one decode <= 64*len + 64 KiB",
                "inputs up to ~2 MiB are executed; the 100 MiB frame limit is represented by length-field attacks",
                "NaN is excluded from the extension differential (SQLite binds NaN as NULL), kept in the pure round trip",
            ],
            min_nontrivial: 20_000,
            required_stats: &[
                "roundtrip.values",
                "pack.differential_vs_extension",
                "pack.roundtrip",
                "hostile.inputs",
                "hostile.decoded_ok",
                "hostile.decode_error",
                "hostile.mut.length_attack",
                "hostile.mut.truncate",
                "hostile.mut.utf8",
                "hostile.mut.tag",
                "sanitizer.miri_shards",
                "sanitizer.miri_operations",
                "sanitizer.valgrind_inputs",
            ],
        },
        budget: (40, 420),
        workers: (8, 14),
        run,
    }
}

// ------------------------------------------------------------------ generators

fn gen_text(rng: &mut impl Rng) -> String {
    let len = match rng.random_range(0..20) {
        0 => 0,
        1 => 24,
        2 => 23,
        3 => 25,
        4 => rng.random_range(8_000..9_000),
        5 if chance(rng, 100) => rng.random_range(100_000..1_200_000),
        _ => rng.random_range(0..40),
    };
    let alphabet: &[&str] = &["a", "Z", "0", " ", "é", "ß", "日", "本", "𝄞", "\u{0}", "'", "\"", "\n"];
    let mut s = String::with_capacity(len + 4);
    while s.len() < len {
        s.push_str(*pick(rng, alphabet));
    }
    // exact byte length for the interesting sizes: pad/truncate with ascii
    while s.len() > len {
        s.pop();
    }
    while s.len() < len {
        s.push('x');
    }
    s
}

fn gen_blob(rng: &mut impl Rng) -> Vec<u8> {
    let len = match rng.random_range(0..20) {
        0 => 0,
        1 => 512,
        2 => 513,
        3 => rng.random_range(8_000..9_000),
        4 if chance(rng, 100) => rng.random_range(100_000..1_200_000),
        _ => rng.random_range(0..40),
    };
    let mut v = vec![0u8; len];
    rng.fill_bytes(&mut v);
    v
}

pub fn gen_value(rng: &mut impl Rng) -> SqliteValue {
    match rng.random_range(0..12) {
        0 => SqliteValue::Null,
        1 => SqliteValue::Integer(*pick(
            rng,
            &[0i64, 1, -1, 255, 256, 65535, 65536, i32::MAX as i64, i32::MIN as i64, 1 << 40, i64::MAX, i64::MIN, -(1 << 56)],
        )),
        2 => SqliteValue::Integer(match rng.random_range(0..3) {
            // every byte width and every power-of-two boundary, both signs
            0 => {
                let k = rng.random_range(0..64u32);
                let base = if k == 63 { i64::MIN } else { 1i64 << k };
                base.wrapping_add(rng.random_range(-1..=1)).wrapping_mul(if rng.random_range(0..2) == 0 { 1 } else { -1 })
            }
            1 => {
                let w = rng.random_range(1..=8u32);
                let v: u64 = rng.random::<u64>() >> (64 - 8 * w);
                let v = v | (1u64 << (8 * w - 1)); // top bit of the top byte set
                (v as i64).wrapping_mul(if rng.random_range(0..2) == 0 { 1 } else { -1 })
            }
            _ => rng.random(),
        }),
        3 => SqliteValue::Real(Real(*pick(
            rng,
            &[0.0f64, -0.0, 1.5, f64::INFINITY, f64::NEG_INFINITY, f64::NAN, f64::MIN_POSITIVE, f64::MAX],
        ))),
        4 => SqliteValue::Real(Real(f64::from_bits(rng.random()))),
        5..=8 => SqliteValue::Text(gen_text(rng).into()),
        _ => SqliteValue::Blob(gen_blob(rng).into()),
    }
}

fn gen_actor(rng: &mut impl Rng) -> ActorId {
    let mut b = [0u8; 16];
    rng.fill_bytes(&mut b);
    ActorId(Uuid::from_bytes(b))
}

pub fn gen_change(rng: &mut impl Rng) -> Change {
    Change {
        table: TableName(gen_text_small(rng).into()),
        pk: gen_blob(rng).into_iter().take(300).collect(),
        cid: ColumnName(gen_text_small(rng).into()),
        val: gen_value(rng),
        col_version: rng.random(),
        db_version: CrsqlDbVersion(rng.random()),
        seq: CrsqlSeq(rng.random()),
        site_id: {
            let mut b = [0u8; 16];
            rng.fill_bytes(&mut b);
            b
        },
        cl: rng.random(),
    }
}

fn gen_text_small(rng: &mut impl Rng) -> String {
    let n = rng.random_range(0..30);
    (0..n).map(|_| *pick(rng, &['a', 'b', '_', 'é', '日', '1'])).collect()
}

fn gen_ts(rng: &mut impl Rng) -> Timestamp {
    Timestamp::from(rng.random::<u64>())
}

pub fn gen_changeset(rng: &mut impl Rng) -> Changeset {
    match rng.random_range(0..5) {
        0 => Changeset::Empty {
            versions: CrsqlDbVersion(rng.random())..=CrsqlDbVersion(rng.random()),
            ts: if chance(rng, 500) { Some(gen_ts(rng)) } else { None },
        },
        1 => Changeset::EmptySet {
            versions: (0..rng.random_range(0..6))
                .map(|_| CrsqlDbVersion(rng.random())..=CrsqlDbVersion(rng.random()))
                .collect(),
            ts: gen_ts(rng),
        },
        _ => Changeset::Full {
            version: CrsqlDbVersion(rng.random()),
            changes: (0..rng.random_range(0..5)).map(|_| gen_change(rng)).collect(),
            seqs: CrsqlSeq(rng.random())..=CrsqlSeq(rng.random()),
            last_seq: CrsqlSeq(rng.random()),
            ts: gen_ts(rng),
        },
    }
}

fn gen_need(rng: &mut impl Rng) -> SyncNeedV1 {
    match rng.random_range(0..3) {
        0 => SyncNeedV1::Full {
            versions: CrsqlDbVersion(rng.random())..=CrsqlDbVersion(rng.random()),
        },
        1 => SyncNeedV1::Partial {
            version: CrsqlDbVersion(rng.random()),
            seqs: (0..rng.random_range(0..5))
                .map(|_| CrsqlSeq(rng.random())..=CrsqlSeq(rng.random()))
                .collect(),
        },
        _ => SyncNeedV1::Empty {
            ts: if chance(rng, 500) { Some(gen_ts(rng)) } else { None },
        },
    }
}

fn gen_state(rng: &mut impl Rng) -> SyncStateV1 {
    let mut st = SyncStateV1 {
        actor_id: gen_actor(rng),
        last_cleared_ts: if chance(rng, 500) { Some(gen_ts(rng)) } else { None },
        ..Default::default()
    };
    for _ in 0..rng.random_range(0..5) {
        let a = gen_actor(rng);
        st.heads.insert(a, CrsqlDbVersion(rng.random()));
        if chance(rng, 600) {
            st.need.insert(
                a,
                (0..rng.random_range(0..4))
                    .map(|_| CrsqlDbVersion(rng.random())..=CrsqlDbVersion(rng.random()))
                    .collect(),
            );
        }
        if chance(rng, 600) {
            st.partial_need.insert(
                a,
                (0..rng.random_range(0..3))
                    .map(|_| {
                        (
                            CrsqlDbVersion(rng.random()),
                            (0..rng.random_range(0..4))
                                .map(|_| CrsqlSeq(rng.random())..=CrsqlSeq(rng.random()))
                                .collect(),
                        )
                    })
                    .collect(),
            );
        }
    }
    st
}

fn gen_trace(rng: &mut impl Rng) -> SyncTraceContextV1 {
    SyncTraceContextV1 {
        traceparent: if chance(rng, 500) { Some(gen_text_small(rng)) } else { None },
        tracestate: if chance(rng, 300) { Some(gen_text_small(rng)) } else { None },
    }
}

pub const T_UNI: u8 = 0;
pub const T_BI: u8 = 1;
pub const T_SYNC: u8 = 2;
pub const T_UNPACK: u8 = 3;

fn target_name(t: u8) -> &'static str {
    match t {
        T_UNI => "UniPayload",
        T_BI => "BiPayload",
        T_SYNC => "SyncMessage",
        _ => "unpack_columns",
    }
}

/// a valid frame: (target, bytes, variant label)
pub fn gen_frame(rng: &mut impl Rng) -> (u8, Vec<u8>, &'static str) {
    let (t, b, l, _) = gen_frame_v(rng);
    (t, b, l)
}

/// like `gen_frame`, also returning the value for types whose encoding is not canonical
pub fn gen_frame_v(rng: &mut impl Rng) -> (u8, Vec<u8>, &'static str, Option<SyncMessage>) {
    match rng.random_range(0..10) {
        0..=2 => {
            let p = UniPayload::V1 {
                data: UniPayloadV1::Broadcast(BroadcastV1::Change(ChangeV1 {
                    actor_id: gen_actor(rng),
                    changeset: gen_changeset(rng),
                })),
                cluster_id: ClusterId(rng.random()),
            };
            (T_UNI, p.write_to_vec().unwrap(), "uni.change", None)
        }
        3 => {
            let p = BiPayload::V1 {
                data: BiPayloadV1::SyncStart {
                    actor_id: gen_actor(rng),
                    trace_ctx: gen_trace(rng),
                },
                cluster_id: ClusterId(rng.random()),
            };
            (T_BI, p.write_to_vec().unwrap(), "bi.syncstart", None)
        }
        4 => {
            let m = SyncMessage::V1(SyncMessageV1::State(gen_state(rng)));
            (T_SYNC, m.write_to_vec().unwrap(), "sync.state", Some(m))
        }
        5 | 6 => (
            T_SYNC,
            SyncMessage::V1(SyncMessageV1::Changeset(ChangeV1 {
                actor_id: gen_actor(rng),
                changeset: gen_changeset(rng),
            }))
            .write_to_vec()
            .unwrap(),
            "sync.changeset",
            None,
        ),
        7 => (
            T_SYNC,
            SyncMessage::V1(SyncMessageV1::Clock(gen_ts(rng))).write_to_vec().unwrap(),
            "sync.clock",
            None,
        ),
        8 => (
            T_SYNC,
            SyncMessage::V1(SyncMessageV1::Rejection(if chance(rng, 500) {
                SyncRejectionV1::MaxConcurrencyReached
            } else {
                SyncRejectionV1::DifferentCluster
            }))
            .write_to_vec()
            .unwrap(),
            "sync.rejection",
            None,
        ),
        _ => (
            T_SYNC,
            SyncMessage::V1(SyncMessageV1::Request(
                (0..rng.random_range(0..4))
                    .map(|_| (gen_actor(rng), (0..rng.random_range(0..4)).map(|_| gen_need(rng)).collect()))
                    .collect(),
            ))
            .write_to_vec()
            .unwrap(),
            "sync.request",
            None,
        ),
    }
}

// ------------------------------------------------------------------ decode + walk

fn utf8_ok_value(v: &SqliteValue) -> bool {
    match v {
        SqliteValue::Text(t) => std::str::from_utf8(t.as_bytes()).is_ok(),
        _ => true,
    }
}

fn utf8_ok_changeset(c: &Changeset) -> bool {
    c.changes().iter().all(|ch| {
        utf8_ok_value(&ch.val)
            && std::str::from_utf8(ch.table.as_bytes()).is_ok()
            && std::str::from_utf8(ch.cid.as_bytes()).is_ok()
    })
}

#[derive(Debug)]
pub enum Decoded {
    Err,
    Ok { reencoded: Vec<u8>, utf8_ok: bool },
}

/// the real decode entry points
pub fn decode(target: u8, buf: &[u8]) -> Decoded {
    match target {
        T_UNI => match UniPayload::read_from_buffer(buf) {
            Err(_) => Decoded::Err,
            Ok(p) => {
                let utf8_ok = match &p {
                    UniPayload::V1 {
                        data: UniPayloadV1::Broadcast(BroadcastV1::Change(c)),
                        ..
                    } => utf8_ok_changeset(&c.changeset),
                };
                // use the text the way the agent would (Debug/trace, clone)
                let _ = format!("{p:?}").len();
                Decoded::Ok {
                    reencoded: p.write_to_vec().unwrap_or_default(),
                    utf8_ok,
                }
            }
        },
        T_BI => match BiPayload::read_from_buffer(buf) {
            Err(_) => Decoded::Err,
            Ok(p) => {
                let _ = format!("{p:?}").len();
                Decoded::Ok {
                    reencoded: p.write_to_vec().unwrap_or_default(),
                    utf8_ok: true,
                }
            }
        },
        T_SYNC => {
            let mut b = bytes::BytesMut::from(buf);
            match SyncMessage::from_buf(&mut b) {
                Err(_) => Decoded::Err,
                Ok(m) => {
                    let utf8_ok = match &m {
                        SyncMessage::V1(SyncMessageV1::Changeset(c)) => utf8_ok_changeset(&c.changeset),
                        _ => true,
                    };
                    let _ = format!("{m:?}").len();
                    Decoded::Ok {
                        reencoded: m.write_to_vec().unwrap_or_default(),
                        utf8_ok,
                    }
                }
            }
        }
        _ => match unpack_columns(buf) {
            Err(_) => Decoded::Err,
            Ok(vals) => {
                // consumers turn the borrowed values into owned ones with `to_owned()`
                let owned: Vec<SqliteValue> = vals.iter().map(|v| v.to_owned()).collect();
                let utf8_ok = owned.iter().all(utf8_ok_value);
                Decoded::Ok {
                    reencoded: pack_columns(&owned).unwrap_or_default(),
                    utf8_ok,
                }
            }
        },
    }
}

// ------------------------------------------------------------------ mutations

#[derive(Clone, Copy, Debug, PartialEq, Eq, Hash)]
pub enum Mut {
    None,
    Tag,
    LengthAttack,
    Truncate,
    Splice,
    Utf8,
    Random,
    BitFlip,
}

impl Mut {
    fn key(&self) -> &'static str {
        match self {
            Mut::None => "hostile.mut.none",
            Mut::Tag => "hostile.mut.tag",
            Mut::LengthAttack => "hostile.mut.length_attack",
            Mut::Truncate => "hostile.mut.truncate",
            Mut::Splice => "hostile.mut.splice",
            Mut::Utf8 => "hostile.mut.utf8",
            Mut::Random => "hostile.mut.random",
            Mut::BitFlip => "hostile.mut.bitflip",
        }
    }
}

const LEN32: [u32; 6] = [u32::MAX, 0x7fff_ffff, 0x8000_0000, 1 << 20, 1 << 24, 0x0fff_ffff];
const LEN64: [u64; 7] = [
    u64::MAX,
    0x0fff_ffff_ffff_ffff,
    0x7fff_ffff_ffff_ffff,
    1 << 32,
    1 << 40,
    1 << 24,
    (1 << 61) - 1,
];

/// a frame whose text values carry a marker so UTF-8 damage can be aimed
fn frame_with_marked_text(rng: &mut impl Rng, text_len: usize) -> (u8, Vec<u8>, usize) {
    let marker: String = "M".repeat(text_len);
    let change = Change {
        table: TableName("tbl".into()),
        pk: vec![1, 2],
        cid: ColumnName("col".into()),
        val: SqliteValue::Text(marker.clone().into()),
        col_version: 1,
        db_version: CrsqlDbVersion(1),
        seq: CrsqlSeq(0),
        site_id: [7; 16],
        cl: 1,
    };
    let cv = ChangeV1 {
        actor_id: gen_actor(rng),
        changeset: Changeset::Full {
            version: CrsqlDbVersion(1),
            changes: vec![change],
            seqs: CrsqlSeq(0)..=CrsqlSeq(0),
            last_seq: CrsqlSeq(0),
            ts: gen_ts(rng),
        },
    };
    let (t, bytes) = if chance(rng, 500) {
        (
            T_UNI,
            UniPayload::V1 {
                data: UniPayloadV1::Broadcast(BroadcastV1::Change(cv)),
                cluster_id: ClusterId(0),
            }
            .write_to_vec()
            .unwrap(),
        )
    } else {
        (T_SYNC, SyncMessage::V1(SyncMessageV1::Changeset(cv)).write_to_vec().unwrap())
    };
    let pos = find(&bytes, marker.as_bytes()).unwrap_or(0);
    (t, bytes, pos)
}

fn find(hay: &[u8], needle: &[u8]) -> Option<usize> {
    if needle.is_empty() {
        return None;
    }
    hay.windows(needle.len()).position(|w| w == needle)
}

/// produce a batch of hostile inputs: (target, bytes, mutation)
pub fn gen_hostile_batch(rng: &mut impl Rng, n: usize) -> Vec<(u8, Vec<u8>, Mut)> {
    let mut out = Vec::with_capacity(n);
    while out.len() < n {
        match rng.random_range(0..100) {
            // systematic sweep over one small frame
            0..=9 => {
                let (t, f, _) = gen_frame(rng);
                if f.len() > 400 {
                    continue;
                }
                let kind = rng.random_range(0..3);
                match kind {
                    0 => {
                        for cut in 0..f.len() {
                            out.push((t, f[..cut].to_vec(), Mut::Truncate));
                        }
                    }
                    1 => {
                        for pos in 0..f.len().min(120) {
                            for v in [0u8, 1, 2, 3, 4, 5, 6, 0x7f, 0x80, 0xff] {
                                let mut g = f.clone();
                                g[pos] = v;
                                out.push((t, g, Mut::Tag));
                            }
                        }
                    }
                    _ => {
                        for pos in 0..f.len().min(150) {
                            let v32 = *pick(rng, &LEN32);
                            let v64 = *pick(rng, &LEN64);
                            if pos + 4 <= f.len() {
                                let mut g = f.clone();
                                g[pos..pos + 4].copy_from_slice(&v32.to_le_bytes());
                                out.push((t, g, Mut::LengthAttack));
                            }
                            if pos + 8 <= f.len() {
                                let mut g = f.clone();
                                g[pos..pos + 8].copy_from_slice(&v64.to_le_bytes());
                                out.push((t, g, Mut::LengthAttack));
                            }
                        }
                    }
                }
            }
            // utf-8 damage in a marked text
            10..=24 => {
                let text_len = *pick(rng, &[1usize, 2, 3, 8, 16, 23, 24, 24, 24, 25, 32, 100]);
                let (t, f, pos) = frame_with_marked_text(rng, text_len);
                let mut g = f.clone();
                match rng.random_range(0..4) {
                    0 => {
                        // last byte of the text: every high value
                        g[pos + text_len - 1] = rng.random_range(0x80..=0xffu32) as u8;
                    }
                    1 => {
                        let p = pos + rng.random_range(0..text_len);
                        g[p] = *pick(rng, &[0xffu8, 0xc0, 0xc1, 0xd8, 0xd9, 0xed, 0xf8, 0x80, 0xbf]);
                    }
                    2 => {
                        for b in g[pos..pos + text_len].iter_mut() {
                            *b = rng.random_range(0x80..=0xffu32) as u8;
                        }
                    }
                    _ => {
                        // overlong / surrogate sequences
                        let seqs: [&[u8]; 4] = [&[0xc0, 0xaf], &[0xed, 0xa0, 0x80], &[0xf4, 0x90, 0x80, 0x80], &[0xe0, 0x80]];
                        let s = *pick(rng, &seqs);
                        if text_len >= s.len() {
                            let p = pos + rng.random_range(0..=(text_len - s.len()));
                            g[p..p + s.len()].copy_from_slice(s);
                        } else {
                            g[pos] = 0xff;
                        }
                    }
                }
                out.push((t, g, Mut::Utf8));
            }
            25..=39 => {
                let (t, mut f, _) = gen_frame(rng);
                if f.is_empty() {
                    continue;
                }
                let pos = rng.random_range(0..f.len().min(64));
                f[pos] = *pick(rng, &[0u8, 1, 2, 3, 4, 5, 6, 9, 0x7f, 0xff]);
                out.push((t, f, Mut::Tag));
            }
            40..=59 => {
                let (t, mut f, _) = gen_frame(rng);
                if f.len() < 8 {
                    continue;
                }
                let pos = rng.random_range(0..f.len() - 7);
                if chance(rng, 500) {
                    let v = *pick(rng, &LEN32);
                    f[pos..pos + 4].copy_from_slice(&v.to_le_bytes());
                } else {
                    let v = *pick(rng, &LEN64);
                    f[pos..pos + 8].copy_from_slice(&v.to_le_bytes());
                }
                out.push((t, f, Mut::LengthAttack));
            }
            60..=69 => {
                let (t, f, _) = gen_frame(rng);
                let cut = rng.random_range(0..=f.len());
                out.push((t, f[..cut].to_vec(), Mut::Truncate));
            }
            70..=79 => {
                let (ta, a, _) = gen_frame(rng);
                let (tb, b, _) = gen_frame(rng);
                let ca = rng.random_range(0..=a.len());
                let cb = rng.random_range(0..=b.len());
                let mut g = a[..ca].to_vec();
                g.extend_from_slice(&b[cb..]);
                out.push((if chance(rng, 500) { ta } else { tb }, g, Mut::Splice));
            }
            80..=86 => {
                let (t, mut f, _) = gen_frame(rng);
                if f.is_empty() {
                    continue;
                }
                for _ in 0..rng.random_range(1..4) {
                    let p = rng.random_range(0..f.len());
                    f[p] ^= 1 << rng.random_range(0..8);
                }
                out.push((t, f, Mut::BitFlip));
            }
            87..=93 => {
                // hostile packed-columns buffers
                let n = rng.random_range(0..6usize);
                let vals: Vec<SqliteValue> = (0..n).map(|_| gen_value_small(rng)).collect();
                let mut f = pack_columns(&vals).unwrap();
                match rng.random_range(0..5) {
                    0 => f.clear(),
                    1 => {
                        let cut = rng.random_range(0..=f.len());
                        f.truncate(cut);
                    }
                    2 if !f.is_empty() => {
                        let p = rng.random_range(0..f.len());
                        f[p] = rng.random();
                    }
                    3 if f.len() > 1 => {
                        // type byte with every int-length nibble
                        f[1] = ((rng.random_range(0..32u32) as u8) << 3) | (rng.random_range(0..8u32) as u8);
                    }
                    _ => {
                        f = (0..rng.random_range(0..24)).map(|_| rng.random()).collect();
                    }
                }
                out.push((T_UNPACK, f, Mut::Tag));
            }
            _ => {
                let len = rng.random_range(0..200);
                let mut g = vec![0u8; len];
                rng.fill_bytes(&mut g);
                // bias the first bytes to small tags so decoding gets deep
                for b in g.iter_mut().take(6) {
                    if chance(rng, 700) {
                        *b = rng.random_range(0..5u32) as u8;
                    }
                }
                out.push((rng.random_range(0..4u32) as u8, g, Mut::Random));
            }
        }
    }
    out.truncate(n);
    out
}

fn gen_value_small(rng: &mut impl Rng) -> SqliteValue {
    match rng.random_range(0..5) {
        0 => SqliteValue::Null,
        1 => SqliteValue::Integer(rng.random()),
        2 => SqliteValue::Real(Real(1.25)),
        3 => SqliteValue::Text(gen_text_small(rng).into()),
        _ => SqliteValue::Blob((0..rng.random_range(0..20)).map(|_| rng.random()).collect::<Vec<u8>>().into()),
    }
}

// ------------------------------------------------------------------ child: decode-batch

static LAST_PANIC: Mutex<String> = Mutex::new(String::new());

/// `vh decode-batch`: reads length-prefixed inputs from stdin:
///   [target u8][len u32 LE][bytes] ...; for each prints `R <idx> <status> <total_alloc> <max_single> [panic msg]`
pub fn child_decode_batch(extra: &[String]) -> i32 {
    // address space limit so absurd reservations fail instead of being satisfied lazily
    let limit_gib: u64 = extra.first().and_then(|s| s.parse().ok()).unwrap_or(4);
    unsafe {
        let lim = libc::rlimit {
            rlim_cur: limit_gib << 30,
            rlim_max: limit_gib << 30,
        };
        libc::setrlimit(libc::RLIMIT_AS, &lim);
        // no core dumps
        let z = libc::rlimit { rlim_cur: 0, rlim_max: 0 };
        libc::setrlimit(libc::RLIMIT_CORE, &z);
    }
    std::panic::set_hook(Box::new(|info| {
        let msg = if let Some(s) = info.payload().downcast_ref::<&str>() {
            s.to_string()
        } else if let Some(s) = info.payload().downcast_ref::<String>() {
            s.clone()
        } else {
            "<non-string panic>".to_string()
        };
        let loc = info.location().map(|l| format!("{}:{}", l.file(), l.line())).unwrap_or_default();
        // the message may quote corrupted (non UTF-8) text: sanitise byte-wise, never as chars
        let clean: String = format!("{msg} @ {loc}")
            .as_bytes()
            .iter()
            .take(400)
            .map(|b| if b.is_ascii_graphic() || *b == b' ' { *b as char } else { '?' })
            .collect();
        if let Ok(mut g) = LAST_PANIC.try_lock() {
            *g = clean;
        }
    }));
    let mut input = Vec::new();
    if std::io::stdin().read_to_end(&mut input).is_err() {
        return 3;
    }
    let out = std::io::stdout();
    let mut pos = 0usize;
    let mut idx = 0usize;
    while pos + 5 <= input.len() {
        let target = input[pos];
        let len = u32::from_le_bytes(input[pos + 1..pos + 5].try_into().unwrap()) as usize;
        pos += 5;
        if pos + len > input.len() {
            break;
        }
        let buf = &input[pos..pos + len];
        pos += len;
        {
            // announce before decoding so a dying process identifies its input
            let mut l = out.lock();
            let _ = writeln!(l, "S {idx}");
            let _ = l.flush();
        }
        alloc_track::start();
        let res = catch_unwind(AssertUnwindSafe(|| decode(target, buf)));
        let (total, max_single) = alloc_track::stop();
        let mut l = out.lock();
        match res {
            Ok(Decoded::Err) => {
                let _ = writeln!(l, "R {idx} err {total} {max_single}");
            }
            Ok(Decoded::Ok { utf8_ok, .. }) => {
                let _ = writeln!(l, "R {idx} {} {total} {max_single}", if utf8_ok { "ok" } else { "badutf8" });
            }
            Err(_) => {
                let msg: String = LAST_PANIC.lock().map(|g| g.clone()).unwrap_or_default();
                let _ = writeln!(l, "R {idx} panic {total} {max_single} {msg}");
            }
        }
        let _ = l.flush();
        idx += 1;
    }
    0
}

#[derive(Debug, Clone)]
pub enum Outcome {
    Ok,
    Err,
    BadUtf8,
    Panic(String),
    Died(String),
}

/// run a batch in child processes; returns one outcome + alloc numbers per input
pub fn run_batch_in_child(batch: &[(u8, Vec<u8>, Mut)]) -> Result<Vec<(Outcome, u64, u64)>, String> {
    let exe = std::env::current_exe().map_err(|e| e.to_string())?;
    let mut results: Vec<Option<(Outcome, u64, u64)>> = vec![None; batch.len()];
    let mut start = 0usize;
    let mut restarts = 0;
    while start < batch.len() {
        let mut payload = Vec::new();
        for (t, b, _) in &batch[start..] {
            payload.push(*t);
            payload.extend_from_slice(&(b.len() as u32).to_le_bytes());
            payload.extend_from_slice(b);
        }
        let mut child = Command::new(&exe)
            .arg("decode-batch")
            .arg("4")
            .stdin(Stdio::piped())
            .stdout(Stdio::piped())
            .stderr(Stdio::null())
            .spawn()
            .map_err(|e| format!("spawn decode-batch: {e}"))?;
        let mut stdin = child.stdin.take().unwrap();
        let writer = std::thread::spawn(move || {
            let _ = stdin.write_all(&payload);
        });
        let stdout = child.stdout.take().unwrap();
        let mut last_started: Option<usize> = None;
        let mut done_upto = 0usize;
        let mut rd = BufReader::new(stdout);
        let mut raw = Vec::new();
        loop {
            raw.clear();
            match rd.read_until(b'\n', &mut raw) {
                Ok(0) | Err(_) => break,
                Ok(_) => {}
            }
            let line = String::from_utf8_lossy(&raw);
            let line = line.trim_end();
            let mut it = line.splitn(6, ' ');
            match it.next() {
                Some("S") => {
                    last_started = it.next().and_then(|s| s.parse().ok());
                }
                Some("R") => {
                    let i: usize = it.next().and_then(|s| s.parse().ok()).unwrap_or(usize::MAX);
                    let status = it.next().unwrap_or("");
                    let total: u64 = it.next().and_then(|s| s.parse().ok()).unwrap_or(0);
                    let maxs: u64 = it.next().and_then(|s| s.parse().ok()).unwrap_or(0);
                    let msg = it.next().unwrap_or("").to_string();
                    let o = match status {
                        "ok" => Outcome::Ok,
                        "err" => Outcome::Err,
                        "badutf8" => Outcome::BadUtf8,
                        "panic" => Outcome::Panic(msg),
                        _ => Outcome::Err,
                    };
                    if start + i < results.len() {
                        results[start + i] = Some((o, total, maxs));
                        done_upto = i + 1;
                    }
                }
                _ => {}
            }
        }
        let status = child.wait().map_err(|e| e.to_string())?;
        let _ = writer.join();
        if done_upto + start >= batch.len() && status.success() {
            break;
        }
        // died while decoding input `last_started`
        let culprit = last_started.unwrap_or(done_upto);
        if culprit >= done_upto && start + culprit < results.len() {
            use std::os::unix::process::ExitStatusExt;
            let why = match status.signal() {
                Some(s) => format!("signal {s}"),
                None => format!("exit {:?}", status.code()),
            };
            results[start + culprit] = Some((Outcome::Died(why), 0, 0));
            start += culprit + 1;
        } else {
            return Err(format!("decode-batch child ended early without a culprit: {status:?}"));
        }
        restarts += 1;
        if restarts > batch.len() {
            return Err("too many child restarts".into());
        }
    }
    results
        .into_iter()
        .map(|r| r.ok_or_else(|| "missing result".to_string()))
        .collect()
}

fn normalize_panic(msg: &str) -> String {
    // keep the message kind and the source location, drop quoted data
    let (head, loc) = match msg.rsplit_once(" @ ") {
        Some((h, l)) => (h, l),
        None => (msg, ""),
    };
    let head = head.split("; it is inside").next().unwrap_or(head);
    let head = head.split('`').next().unwrap_or(head);
    let loc = loc.rsplit('/').next().unwrap_or(loc);
    let msg = &format!("{} @ {}", head.trim(), loc);
    // drop digits so one defect keeps one signature
    let s: String = msg.chars().map(|c| if c.is_ascii_digit() { '#' } else { c }).collect();
    let mut out = String::new();
    let mut prev_hash = false;
    for c in s.chars() {
        if c == '#' {
            if !prev_hash {
                out.push('#');
            }
            prev_hash = true;
        } else {
            prev_hash = false;
            out.push(c);
        }
    }
    truncate(&out, 120)
}

// ------------------------------------------------------------------ worker

fn hex(b: &[u8]) -> String {
    let mut s = String::with_capacity(b.len() * 2);
    for x in b.iter().take(600) {
        s.push_str(&format!("{x:02x}"));
    }
    if b.len() > 600 {
        s.push_str("…");
    }
    s
}

fn run(ctx: &mut Ctx) {
    let mut rng = ctx.rng(9);
    // panics are caught and judged by the monitors; keep stderr quiet
    std::panic::set_hook(Box::new(|_| {}));

    // ---- 1. round trip of valid values through the real codecs
    let n_rt = ctx.tier.pick(10_000u64, 150_000u64);
    let mut i = 0;
    while i < n_rt && ctx.time_left() {
        i += 1;
        let (t, bytes, label, value) = gen_frame_v(&mut rng);
        ctx.stat("roundtrip.values", 1);
        ctx.stat(&format!("roundtrip.{label}"), 1);
        ctx.stat_max("roundtrip.frame_bytes", bytes.len() as u64);
        let h = hash_of(&(t, &bytes));
        alloc_track::start();
        let d = catch_unwind(AssertUnwindSafe(|| decode(t, &bytes)));
        let (total, _max) = alloc_track::stop();
        ctx.stat_max("valid.alloc_ratio_x100", (total * 100) / (bytes.len() as u64 + 1));
        match d {
            Err(_) => {
                ctx.exec(h, true);
                ctx.violation(
                    format!("roundtrip/panic:{}", target_name(t)),
                    json!({"target": target_name(t), "variant": label, "bytes_hex": hex(&bytes)}),
                );
            }
            Ok(Decoded::Err) => {
                ctx.exec(h, true);
                ctx.violation(
                    format!("roundtrip/valid-frame-rejected:{}:{label}", target_name(t)),
                    json!({"target": target_name(t), "variant": label, "bytes_hex": hex(&bytes)}),
                );
            }
            Ok(Decoded::Ok { reencoded, utf8_ok }) => {
                ctx.exec(h, bytes.len() > 24);
                // SyncStateV1 holds HashMaps: its encoding order is not canonical, so
                // compare the decoded values instead of the bytes
                let same = if let Some(v) = &value {
                    let a = SyncMessage::read_from_buffer(&bytes).ok();
                    let b = SyncMessage::read_from_buffer(&reencoded).ok();
                    ctx.stat("roundtrip.compared_by_value", 1);
                    a.as_ref() == Some(v) && a == b && reencoded.len() == bytes.len()
                } else {
                    reencoded == bytes
                };
                if !same {
                    ctx.violation(
                        format!("roundtrip/decode-encode-differs:{}:{label}", target_name(t)),
                        json!({"target": target_name(t), "variant": label, "bytes_hex": hex(&bytes), "reencoded_hex": hex(&reencoded)}),
                    );
                }
                if !utf8_ok {
                    ctx.violation(
                        format!("roundtrip/invalid-utf8-from-valid-frame:{}", target_name(t)),
                        json!({"bytes_hex": hex(&bytes)}),
                    );
                }
                // default_on_eof: strip the trailing cluster id, must decode to cluster 0
                if (t == T_UNI || t == T_BI) && bytes.len() > 2 {
                    let stripped = &bytes[..bytes.len() - 2];
                    ctx.stat("roundtrip.default_on_eof_cluster_absent", 1);
                    match decode(t, stripped) {
                        Decoded::Ok { reencoded, .. } => {
                            let mut want = stripped.to_vec();
                            want.extend_from_slice(&[0, 0]);
                            if reencoded != want {
                                ctx.violation(
                                    format!("roundtrip/absent-cluster-id-not-defaulted-to-0:{}", target_name(t)),
                                    json!({"bytes_hex": hex(stripped), "reencoded_hex": hex(&reencoded)}),
                                );
                            }
                        }
                        Decoded::Err => ctx.violation(
                            format!("roundtrip/frame-without-cluster-id-rejected:{}", target_name(t)),
                            json!({"bytes_hex": hex(stripped)}),
                        ),
                    }
                }
            }
        }
    }

    // ---- 2. pack/unpack: differential against the loaded extension + round trip
    match rusqlite::Connection::open_in_memory().map_err(|e| e.to_string()).and_then(|c| CrConn::init(c).map_err(|e| e.to_string())) {
        Err(e) => ctx.inconclusive(format!("could not load cr-sqlite extension for the pack differential: {e}")),
        Ok(conn) => {
            let max_args = 127usize; // SQLite's default SQLITE_MAX_FUNCTION_ARG
            let n_pack = ctx.tier.pick(4_000u64, 120_000u64);
            let mut k = 0;
            while k < n_pack && ctx.time_left() {
                k += 1;
                let ncols = match rng.random_range(0..20) {
                    0 => 0,
                    1 => 255,
                    2 => 256,
                    3 => max_args.min(127),
                    4 => rng.random_range(100..256),
                    _ => rng.random_range(1..8),
                };
                let vals: Vec<SqliteValue> = (0..ncols)
                    .map(|_| if ncols > 20 { gen_value_small(&mut rng) } else { gen_value(&mut rng) })
                    .collect();
                let h = hash_of(&vals.iter().map(|v| format!("{v:?}")).collect::<Vec<_>>());
                let packed = catch_unwind(AssertUnwindSafe(|| pack_columns(&vals)));
                let packed = match packed {
                    Err(_) => {
                        ctx.exec(h, true);
                        ctx.violation("pack/panic", json!({"ncols": ncols}));
                        continue;
                    }
                    Ok(Err(_)) => {
                        ctx.exec(h, false);
                        if ncols <= 255 {
                            ctx.violation("pack/rejected-up-to-255-columns", json!({"ncols": ncols}));
                        } else {
                            ctx.stat("pack.rejected_over_255", 1);
                        }
                        continue;
                    }
                    Ok(Ok(p)) => p,
                };
                if ncols > 255 {
                    ctx.violation("pack/accepted-more-than-255-columns", json!({"ncols": ncols}));
                }
                ctx.stat("pack.roundtrip", 1);
                ctx.stat_max("pack.columns", ncols as u64);
                ctx.exec(h, ncols > 0);
                // round trip
                match catch_unwind(AssertUnwindSafe(|| unpack_columns(&packed).map(|v| v.iter().map(|r| format!("{:?}", r.0)).collect::<Vec<_>>()))) {
                    Err(_) => ctx.violation("unpack/panic-on-own-packing", json!({"packed_hex": hex(&packed)})),
                    Ok(Err(e)) => ctx.violation("unpack/rejects-own-packing", json!({"packed_hex": hex(&packed), "err": e.to_string()})),
                    Ok(Ok(un)) => {
                        let want: Vec<String> = vals
                            .iter()
                            .map(|v| match v {
                                SqliteValue::Null => "Null".to_string(),
                                SqliteValue::Integer(i) => format!("Integer({i})"),
                                SqliteValue::Real(r) => format!("Real({:?})", r.0),
                                SqliteValue::Text(t) => format!("Text({:?})", t.as_bytes()),
                                SqliteValue::Blob(b) => format!("Blob({:?})", b.as_slice()),
                            })
                            .collect();
                        if un != want {
                            let first = un.iter().zip(want.iter()).position(|(a, b)| a != b);
                            let (got1, want1) = first
                                .map(|i| (truncate(&un[i], 200), truncate(&want[i], 200)))
                                .unwrap_or_else(|| (format!("len {}", un.len()), format!("len {}", want.len())));
                            let kind = if want1.starts_with("Integer") { "integer" } else if want1.starts_with("Real") { "real" } else if want1.starts_with("Text") { "text" } else { "other" };
                            ctx.violation(
                                format!("unpack/roundtrip-differs:{kind}"),
                                json!({"first_difference_at": first, "unpacked": got1, "packed_value": want1, "ncols": ncols}),
                            );
                        }
                    }
                }
                // differential with the extension
                let has_nan = vals.iter().any(|v| matches!(v, SqliteValue::Real(r) if r.0.is_nan()));
                if ncols >= 1 && ncols <= max_args && !has_nan {
                    let sql = format!("SELECT crsql_pack_columns({})", vec!["?"; ncols].join(","));
                    let ext: Result<Vec<u8>, _> = conn
                        .prepare_cached(&sql)
                        .and_then(|mut p| p.query_row(rusqlite::params_from_iter(vals.iter()), |r| r.get(0)));
                    match ext {
                        Ok(ext) => {
                            ctx.stat("pack.differential_vs_extension", 1);
                            if ext != packed {
                                ctx.violation(
                                    "pack/differs-from-extension",
                                    json!({"values": truncate(&format!("{vals:?}"), 800), "ours_hex": hex(&packed), "extension_hex": hex(&ext)}),
                                );
                            }
                        }
                        Err(e) => ctx.stat(&format!("pack.extension_error.{}", truncate(&e.to_string(), 40)), 1),
                    }
                }
            }
        }
    }

    // ---- 3. hostile bytes, decoded in child processes
    let n_batches = ctx.tier.pick(24usize, 400usize);
    let batch_size = 2_500usize;
    for _ in 0..n_batches {
        if !ctx.time_left() {
            break;
        }
        let batch = gen_hostile_batch(&mut rng, batch_size);
        let results = match run_batch_in_child(&batch) {
            Ok(r) => r,
            Err(e) => {
                ctx.inconclusive(format!("hostile batch harness error: {e}"));
                continue;
            }
        };
        for ((t, bytes, m), (outcome, total, max_single)) in batch.iter().zip(results) {
            ctx.stat("hostile.inputs", 1);
            ctx.stat(m.key(), 1);
            let h = hash_of(&(t, bytes));
            ctx.exec(h, *m != Mut::None);
            let bound = 64 * bytes.len() as u64 + 64 * 1024;
            let tn = target_name(*t);
            let detail = || json!({"target": tn, "mutation": format!("{m:?}"), "len": bytes.len(), "bytes_hex": hex(bytes), "alloc_total": total, "alloc_max_single": max_single});
            match outcome {
                Outcome::Ok => ctx.stat("hostile.decoded_ok", 1),
                Outcome::Err => ctx.stat("hostile.decode_error", 1),
                Outcome::BadUtf8 => {
                    ctx.violation(format!("decode/invalid-utf8-text-returned:{tn}"), detail());
                }
                Outcome::Panic(msg) => {
                    ctx.violation(format!("decode/panic:{tn}:{}", normalize_panic(&msg)), {
                        let mut d = detail();
                        d["panic"] = json!(msg);
                        d
                    });
                }
                Outcome::Died(why) => {
                    ctx.violation(format!("decode/process-died:{tn}:{why}"), detail());
                }
            }
            if total > bound {
                ctx.violation(format!("decode/allocation-unrelated-to-input-size:{tn}"), detail());
            }
            ctx.stat_max("hostile.alloc_total_bytes", total);
        }
        if ctx.want_sample()
            && let Some((t, b, m)) = batch.iter().find(|(_, b, m)| *m == Mut::LengthAttack && b.len() < 120)
        {
            let (t, b, m) = (*t, b.clone(), *m);
            ctx.sample(|| json!({"kind": "hostile", "target": target_name(t), "mutation": format!("{m:?}"), "bytes_hex": hex(&b)}));
        }
    }

    // ---- 4. interpreter / sanitizer stage (both tiers; VH_NO_SANITIZERS=1 skips it)
    if std::env::var_os("VH_NO_SANITIZERS").is_none() {
        if ctx.worker == 0 {
            miri_stage(ctx);
        }
        if ctx.worker == 1 || ctx.workers == 1 {
            valgrind_stage(ctx, &mut rng);
        }
    }
}

/// the pure-Rust paths under Miri: /verif/miri is a tiny crate over klukai-types (path
/// dependency on /repo, so it is rebuilt from the working tree) run as parallel shards
fn miri_stage(ctx: &mut Ctx) {
    let shards = 8u64;
    let cases = if ctx.tier == crate::common::Tier::Thorough { 40 } else { 6 };
    // build once (serialised by cargo anyway), then the shards run in parallel
    let build = Command::new("cargo")
        .args(["+nightly", "miri", "run", "-q", "--", "1", "0"])
        .current_dir("/verif/miri")
        .env("CARGO_NET_OFFLINE", "true")
        .env("MIRIFLAGS", "-Zmiri-disable-isolation")
        .env_remove("CARGO_TARGET_DIR")
        .stdout(Stdio::null())
        .stderr(Stdio::piped())
        .output();
    match build {
        Ok(o) if o.status.success() => {}
        Ok(o) => {
            ctx.inconclusive(format!("miri build failed: {}", truncate(&String::from_utf8_lossy(&o.stderr), 300)));
            return;
        }
        Err(e) => {
            ctx.inconclusive(format!("miri not runnable: {e}"));
            return;
        }
    }
    let mut children = vec![];
    for sh in 0..shards {
        let seed = ctx.seed.wrapping_mul(1000).wrapping_add(sh);
        let c = Command::new("cargo")
            .args(["+nightly", "miri", "run", "-q", "--", &seed.to_string(), &cases.to_string()])
            .current_dir("/verif/miri")
            .env("CARGO_NET_OFFLINE", "true")
            .env("MIRIFLAGS", "-Zmiri-disable-isolation")
            .env_remove("CARGO_TARGET_DIR")
            .stdout(Stdio::piped())
            .stderr(Stdio::piped())
            .spawn();
        match c {
            Ok(c) => children.push((seed, c)),
            Err(e) => ctx.inconclusive(format!("miri shard not started: {e}")),
        }
    }
    for (seed, c) in children {
        let Ok(out) = c.wait_with_output() else {
            ctx.inconclusive("miri shard lost");
            continue;
        };
        let so = String::from_utf8_lossy(&out.stdout);
        let se = String::from_utf8_lossy(&out.stderr);
        ctx.stat("sanitizer.miri_shards", 1);
        for l in so.lines() {
            if let Some(n) = l.strip_prefix("MIRI-CASES ") {
                ctx.stat("sanitizer.miri_operations", n.trim().parse().unwrap_or(0));
            }
            if let Some(p) = l.strip_prefix("MIRI-PANIC ") {
                ctx.violation("decode/panic-or-wrong-result-under-miri", json!({"shard_seed": seed, "what": p}));
            }
        }
        if se.contains("Undefined Behavior") {
            ctx.stat("sanitizer.miri_ub_reports", 1);
            let at = se.find("Undefined Behavior").unwrap_or(0);
            ctx.violation("memory/miri-reports-undefined-behaviour-on-a-pure-rust-path", json!({"shard_seed": seed, "report": truncate(&se[at.saturating_sub(40)..], 1500)}));
        } else if !out.status.success() {
            ctx.inconclusive(format!("miri shard {seed} ended with {:?}: {}", out.status.code(), truncate(&se, 300)));
        }
    }
}

/// hostile inputs decoded by the child under valgrind memcheck (no leak check: the
/// counting allocator and the panic hook keep memory on purpose)
fn valgrind_stage(ctx: &mut Ctx, rng: &mut impl Rng) {
    let n = if ctx.tier == crate::common::Tier::Thorough { 1500 } else { 200 };
    let batch = gen_hostile_batch(rng, n);
    let mut payload = Vec::new();
    for (t, b, _) in &batch {
        payload.push(*t);
        payload.extend_from_slice(&(b.len() as u32).to_le_bytes());
        payload.extend_from_slice(b);
    }
    let Ok(exe) = std::env::current_exe() else { return };
    let child = Command::new("valgrind")
        .args(["-q", "--error-exitcode=97", "--leak-check=no", "--num-callers=12"])
        .arg(&exe)
        .args(["decode-batch", "4096"])
        .stdin(Stdio::piped())
        .stdout(Stdio::piped())
        .stderr(Stdio::piped())
        .spawn();
    let mut child = match child {
        Ok(c) => c,
        Err(e) => {
            ctx.inconclusive(format!("valgrind not runnable: {e}"));
            return;
        }
    };
    let mut stdin = child.stdin.take().unwrap();
    let w = std::thread::spawn(move || {
        let _ = stdin.write_all(&payload);
    });
    let Ok(out) = child.wait_with_output() else {
        ctx.inconclusive("valgrind child lost");
        return;
    };
    let _ = w.join();
    let so = String::from_utf8_lossy(&out.stdout);
    let se = String::from_utf8_lossy(&out.stderr);
    let done = so.lines().filter(|l| l.starts_with("R ")).count() as u64;
    ctx.stat("sanitizer.valgrind_inputs", done);
    ctx.stat("sanitizer.valgrind_runs", 1);
    if out.status.code() == Some(97) || se.contains("Invalid read") || se.contains("Invalid write") || se.contains("uninitialised") {
        ctx.violation("memory/valgrind-memcheck-error-on-a-decode-path", json!({"report": truncate(&se, 2000), "inputs_done": done}));
    } else if !out.status.success() || done < batch.len() as u64 {
        ctx.inconclusive(format!("valgrind run ended with {:?} after {done} of {} inputs: {}", out.status.code(), batch.len(), truncate(&se, 300)));
    }
}

pub fn _unused(_: Value) {}
