//! C18 — the membership view follows the newest identity of each peer.
//!
//! Oracle: fold-by-newest-identity reference model + ring model, compared with
//! the real `Members` after every step.

use std::{
    collections::{BTreeMap, VecDeque},
    net::SocketAddr,
    time::Duration,
};

use klukai_types::{
    actor::{Actor, ActorId, ClusterId},
    broadcast::Timestamp,
    members::Members,
};
use rand::Rng;
use serde_json::{Value, json};
use uhlc::NTP64;
use uuid::Uuid;

use crate::{
    Check,
    common::{CheckSpec, Ctx, hash_of},
};

pub fn check() -> Check {
    Check {
        spec: CheckSpec {
            prop: "C18",
            level: "exploration",
            rule: "case = sequence of MemberUp/MemberDown notifications and RTT samples; identities = (actor, timestamp) with a fixed address and cluster each; restricted to what the SWIM layer can emit (an up never carries an identity older than one already reported down; a down names an identity that was reported up and is not down); small scope: all sequences up to length 5 over 1 actor x 3 identities (2 addresses, 2 clusters) x {up,down} x 3 rtt kinds (complete in thorough), plus seeded random sequences up to 200 steps over 4 actors; model compared after every step; non-trivial = sequence contains an identity renewal (newer timestamp) or a stale notification; distinct by hash of the step list",
            assumptions: &[
                "foca 0.19 contract: MemberDown(T) only after MemberUp(T); Rename is not an up/down notification",
                "an identity (actor id, timestamp) has one address and one cluster id",
                "while two present members hold the same address at once, their rings are not judged (the statement does not say whose samples they are); they are judged again as soon as one holder remains",
            ],
            min_nontrivial: 1_000,
            required_stats: &["steps.up", "steps.down", "steps.rtt", "seen.shared_address_sequences", "seen.renewal_with_new_address", "seen.stale_down_ignored", "seen.avg_out_of_buckets"],
        },
        budget: (25, 300),
        workers: (6, 14),
        run,
    }
}

#[derive(Clone, Debug, PartialEq, Eq, Hash)]
pub enum Step {
    Up { actor: u8, ident: u8 },
    Down { actor: u8, ident: u8 },
    Rtt { addr: u8, ms: u64 },
}

/// identity table: ident index -> (ts secs, addr index, cluster)
#[derive(Clone, Debug)]
pub struct World {
    pub idents: Vec<(u64, u8, u16)>,
    /// address index 1 is the same socket address for every actor (an address taken
    /// over by another peer, e.g. a node re-created with a new actor id)
    pub shared_addr: bool,
}

fn addr_of(w: &World, actor: u8, addr: u8) -> SocketAddr {
    if w.shared_addr && addr == 1 {
        return "10.0.99.1:7000".parse().unwrap();
    }
    format!("10.0.{}.{}:7000", actor, addr + 1).parse().unwrap()
}

fn actor_id(actor: u8) -> ActorId {
    ActorId(Uuid::from_bytes([actor + 1; 16]))
}

fn mk_actor(w: &World, actor: u8, ident: u8) -> Actor {
    let (ts, addr, cluster) = w.idents[ident as usize];
    Actor::new(
        actor_id(actor),
        addr_of(w, actor, addr),
        Timestamp(NTP64::from(Duration::from_secs(ts))),
        ClusterId(cluster),
    )
}

const BUCKETS: [(u64, u64); 6] = [(0, 6), (6, 15), (15, 50), (50, 100), (100, 200), (200, 300)];

#[derive(Default, Clone)]
struct ModelMember {
    // ident -> last notification was up?
    last: BTreeMap<u8, bool>,
    reported_down_max_ts: Option<u64>,
}

#[derive(Default)]
pub struct Model {
    members: BTreeMap<u8, ModelMember>,
    rtts: BTreeMap<SocketAddr, VecDeque<u64>>,
}

pub struct StepFlags {
    pub renewal_new_addr: bool,
    pub stale_down: bool,
    pub stale_up: bool,
    pub out_of_bucket: bool,
}

impl Model {
    /// is this step emittable by the SWIM layer in the current model state?
    pub fn allowed(&self, w: &World, s: &Step) -> bool {
        match s {
            Step::Up { actor, ident } => {
                let ts = w.idents[*ident as usize].0;
                match self.members.get(actor).and_then(|m| m.reported_down_max_ts) {
                    Some(d) => ts >= d,
                    None => true,
                }
            }
            Step::Down { actor, ident } => self
                .members
                .get(actor)
                .and_then(|m| m.last.get(ident))
                .copied()
                .unwrap_or(false),
            Step::Rtt { .. } => true,
        }
    }

    pub fn apply(&mut self, w: &World, s: &Step) -> StepFlags {
        let mut f = StepFlags {
            renewal_new_addr: false,
            stale_down: false,
            stale_up: false,
            out_of_bucket: false,
        };
        match s {
            Step::Up { actor, ident } => {
                let (ts, addr, _) = w.idents[*ident as usize];
                let m = self.members.entry(*actor).or_default();
                if let Some((nts, naddr)) = newest(w, m).map(|i| (w.idents[i as usize].0, w.idents[i as usize].1)) {
                    if ts > nts && addr != naddr && m.last.get(&newest(w, m).unwrap()).copied().unwrap_or(false) {
                        f.renewal_new_addr = true;
                    }
                    if ts < nts {
                        f.stale_up = true;
                    }
                }
                m.last.insert(*ident, true);
            }
            Step::Down { actor, ident } => {
                let ts = w.idents[*ident as usize].0;
                let m = self.members.entry(*actor).or_default();
                if let Some(n) = newest(w, m)
                    && w.idents[n as usize].0 > ts
                {
                    f.stale_down = true;
                }
                m.last.insert(*ident, false);
                m.reported_down_max_ts = Some(m.reported_down_max_ts.map_or(ts, |d| d.max(ts)));
            }
            Step::Rtt { addr, ms } => {
                let a = decode_addr(w, *addr);
                let q = self.rtts.entry(a).or_default();
                q.push_front(*ms);
                if q.len() > 20 {
                    q.pop_back();
                }
                let avg = q.iter().sum::<u64>() / q.len() as u64;
                if avg >= 300 {
                    f.out_of_bucket = true;
                }
            }
        }
        f
    }

    /// expected present members: actor -> (addr, ts, cluster)
    pub fn expected(&self, w: &World) -> BTreeMap<ActorId, (SocketAddr, u64, u16)> {
        let mut out = BTreeMap::new();
        for (actor, m) in self.members.iter() {
            if let Some(n) = newest(w, m)
                && m.last.get(&n).copied().unwrap_or(false)
            {
                let (ts, addr, cluster) = w.idents[n as usize];
                out.insert(actor_id(*actor), (addr_of(w, *actor, addr), ts, cluster));
            }
        }
        out
    }

    pub fn avg(&self, addr: &SocketAddr) -> Option<u64> {
        self.rtts
            .get(addr)
            .filter(|q| !q.is_empty())
            .map(|q| q.iter().sum::<u64>() / q.len() as u64)
    }
}

fn newest(w: &World, m: &ModelMember) -> Option<u8> {
    m.last.keys().copied().max_by_key(|i| w.idents[*i as usize].0)
}

// rtt addr code: actor*2 + addr
fn decode_addr(w: &World, code: u8) -> SocketAddr {
    addr_of(w, code / 2, code % 2)
}

pub fn compare(w: &World, model: &Model, real: &Members) -> Result<(), (String, Value)> {
    let exp = model.expected(w);
    let got: BTreeMap<ActorId, (SocketAddr, u64, u16)> = real
        .states
        .iter()
        .map(|(id, st)| (*id, (st.addr, st.ts.0.as_secs() as u64, st.cluster_id.0)))
        .collect();
    if exp != got {
        let sig = if exp.keys().collect::<Vec<_>>() != got.keys().collect::<Vec<_>>() {
            "members/presence-differs-from-newest-identity-fold"
        } else {
            "members/address-or-cluster-not-of-newest-identity"
        };
        return Err((
            sig.into(),
            json!({"expected": exp.iter().map(|(k, v)| (k.to_string(), format!("{v:?}"))).collect::<BTreeMap<_, _>>(), "got": got.iter().map(|(k, v)| (k.to_string(), format!("{v:?}"))).collect::<BTreeMap<_, _>>()}),
        ));
    }
    // an address held by two present members at once: which of them the samples belong
    // to is not determined by the statement; judged again once one holder remains
    let mut holders: BTreeMap<SocketAddr, u32> = BTreeMap::new();
    for (addr, _, _) in exp.values() {
        *holders.entry(*addr).or_insert(0) += 1;
    }
    let contested = |a: &SocketAddr| holders.get(a).copied().unwrap_or(0) > 1;
    // rings
    for (id, st) in real.states.iter() {
        if contested(&st.addr) {
            continue;
        }
        let avg = model.avg(&st.addr);
        let want: Option<u8> = avg.and_then(|a| {
            BUCKETS
                .iter()
                .position(|(lo, hi)| a >= *lo && a < *hi)
                .map(|p| p as u8)
        });
        if st.ring != want {
            let sig = match avg {
                None => "ring/set-without-samples-for-current-address",
                Some(a) if a >= 300 => "ring/stale-after-average-left-all-buckets",
                Some(_) => "ring/not-the-bucket-of-current-address-average",
            };
            return Err((
                sig.into(),
                json!({"actor": id.to_string(), "addr": st.addr.to_string(), "avg_ms_current_addr": avg, "ring": st.ring, "expected_ring": want}),
            ));
        }
    }
    // ring0 selection per cluster
    for c in [0u16, 1, 2] {
        let got: Vec<SocketAddr> = real.ring0(ClusterId(c)).filter(|a| !contested(a)).collect();
        let mut want: Vec<SocketAddr> = exp
            .values()
            .filter(|(addr, _, cl)| *cl == c && !contested(addr) && model.avg(addr).is_some_and(|a| a < 6))
            .map(|(addr, _, _)| *addr)
            .collect();
        let mut g = got.clone();
        g.sort();
        want.sort();
        if g != want {
            return Err((
                "ring0/selection-differs".into(),
                json!({"cluster": c, "got": g.iter().map(|a| a.to_string()).collect::<Vec<_>>(), "want": want.iter().map(|a| a.to_string()).collect::<Vec<_>>()}),
            ));
        }
    }
    Ok(())
}

pub fn apply_real(w: &World, real: &mut Members, s: &Step) {
    match s {
        Step::Up { actor, ident } => {
            real.add_member(&mk_actor(w, *actor, *ident));
        }
        Step::Down { actor, ident } => {
            real.remove_member(&mk_actor(w, *actor, *ident));
        }
        Step::Rtt { addr, ms } => real.add_rtt(decode_addr(w, *addr), Duration::from_millis(*ms)),
    }
}

/// returns (nontrivial, steps applied) or a violation
pub fn run_sequence(ctx: &mut Ctx, w: &World, steps: &[Step]) -> Result<bool, (String, Value)> {
    let mut model = Model::default();
    let mut real = Members::default();
    let mut nontrivial = false;
    for (i, s) in steps.iter().enumerate() {
        if !model.allowed(w, s) {
            // not emittable by SWIM: sequence ends here (prefix was checked)
            ctx.stat("sequences.truncated_at_unemittable_step", 1);
            break;
        }
        let f = model.apply(w, s);
        apply_real(w, &mut real, s);
        match s {
            Step::Up { .. } => ctx.stat("steps.up", 1),
            Step::Down { .. } => ctx.stat("steps.down", 1),
            Step::Rtt { .. } => ctx.stat("steps.rtt", 1),
        }
        if f.renewal_new_addr {
            ctx.stat("seen.renewal_with_new_address", 1);
            nontrivial = true;
        }
        if f.stale_down {
            ctx.stat("seen.stale_down_ignored", 1);
            nontrivial = true;
        }
        if f.stale_up {
            ctx.stat("seen.stale_up_ignored", 1);
            nontrivial = true;
        }
        if f.out_of_bucket {
            ctx.stat("seen.avg_out_of_buckets", 1);
        }
        if let Err((sig, d)) = compare(w, &model, &real) {
            return Err((
                sig,
                json!({"world_idents(ts,addr,cluster)": w.idents, "steps": format!("{:?}", &steps[..=i]), "at_step": i, "diff": d}),
            ));
        }
    }
    Ok(nontrivial)
}

fn run(ctx: &mut Ctx) {
    let mut rng = ctx.rng(18);

    // ---- small scope: 1 actor, 3 identities: (ts 10, addr0, cl0), (ts 20, addr1, cl0), (ts 30, addr0, cl1)
    let w = World {
        idents: vec![(10, 0, 0), (20, 1, 0), (30, 0, 1)],
        shared_addr: false,
    };
    let mut alphabet: Vec<Step> = vec![];
    for ident in 0..3u8 {
        alphabet.push(Step::Up { actor: 0, ident });
        alphabet.push(Step::Down { actor: 0, ident });
    }
    for addr in 0..2u8 {
        alphabet.push(Step::Rtt { addr, ms: 2 });
        alphabet.push(Step::Rtt { addr, ms: 60 });
        alphabet.push(Step::Rtt { addr, ms: 9000 });
    }
    let n = alphabet.len() as u64; // 12
    let max_len = ctx.tier.pick(4u32, 6u32);
    let mut idx = 0u64;
    let mut complete = true;
    'outer: for len in 1..=max_len {
        let total = n.pow(len);
        for code in 0..total {
            idx += 1;
            if idx % ctx.workers as u64 != ctx.worker as u64 {
                continue;
            }
            if !ctx.time_left() {
                complete = false;
                break 'outer;
            }
            let mut c = code;
            let steps: Vec<Step> = (0..len)
                .map(|_| {
                    let s = alphabet[(c % n) as usize].clone();
                    c /= n;
                    s
                })
                .collect();
            eval(ctx, &w, &steps);
        }
    }
    if complete {
        ctx.stat("small_scope_share_enumerated_completely", 1);
        ctx.stat_max("small_scope_max_len", max_len as u64);
    }

    // ---- small scope 2: 2 actors, identities (ts 10, own address), (ts 20, the shared
    // address), (ts 30, own address): an address passes from one peer to the other
    {
        let w = World {
            idents: vec![(10, 0, 0), (20, 1, 0), (30, 0, 0)],
            shared_addr: true,
        };
        let mut alphabet: Vec<Step> = vec![];
        for actor in 0..2u8 {
            for ident in 0..3u8 {
                alphabet.push(Step::Up { actor, ident });
            }
            alphabet.push(Step::Down { actor, ident: 1 });
        }
        alphabet.push(Step::Rtt { addr: 1, ms: 2 }); // the shared address
        alphabet.push(Step::Rtt { addr: 0, ms: 2 });
        alphabet.push(Step::Rtt { addr: 2, ms: 60 });
        let n = alphabet.len() as u64; // 11
        let max_len = ctx.tier.pick(4u32, 6u32);
        let mut idx = 0u64;
        'outer2: for len in 1..=max_len {
            for code in 0..n.pow(len) {
                idx += 1;
                if idx % ctx.workers as u64 != ctx.worker as u64 {
                    continue;
                }
                if !ctx.time_left() {
                    break 'outer2;
                }
                let mut c = code;
                let steps: Vec<Step> = (0..len)
                    .map(|_| {
                        let s = alphabet[(c % n) as usize].clone();
                        c /= n;
                        s
                    })
                    .collect();
                if steps.iter().any(|s| matches!(s, Step::Up { ident: 1, .. })) {
                    ctx.stat("seen.shared_address_sequences", 1);
                }
                eval(ctx, &w, &steps);
            }
        }
    }

    // ---- random: 4 actors, 4 identities each, out-of-order and equal timestamps
    let target = ctx.tier.pick(20_000u64, 2_000_000u64);
    let mut k = 0;
    while k < target && ctx.time_left() {
        k += 1;
        let n_ident = rng.random_range(2..=5usize);
        // identities: distinct timestamps in arbitrary (not index) order
        let mut tss: Vec<u64> = vec![10, 20, 30, 40, 50];
        for i in (1..tss.len()).rev() {
            let j = rng.random_range(0..=i);
            tss.swap(i, j);
        }
        let w = World {
            shared_addr: k % 3 == 0,
            idents: (0..n_ident)
                .map(|i| (tss[i], rng.random_range(0..2u8), rng.random_range(0..3u16)))
                .collect(),
        };
        let len = rng.random_range(3..if k % 20 == 0 { 200 } else { 30 });
        let n_actors = rng.random_range(1..=4u8);
        let mut model = Model::default();
        let mut steps = vec![];
        for _ in 0..len {
            // draw until allowed (bounded tries)
            for _try in 0..8 {
                let s = match rng.random_range(0..10) {
                    0..=3 => Step::Up {
                        actor: rng.random_range(0..n_actors),
                        ident: rng.random_range(0..w.idents.len() as u8),
                    },
                    4..=6 => Step::Down {
                        actor: rng.random_range(0..n_actors),
                        ident: rng.random_range(0..w.idents.len() as u8),
                    },
                    _ => Step::Rtt {
                        addr: rng.random_range(0..n_actors * 2),
                        ms: *crate::common::pick(&mut rng, &[0u64, 1, 5, 6, 14, 15, 49, 50, 99, 100, 199, 200, 299, 300, 1000, 100_000]),
                    },
                };
                if model.allowed(&w, &s) {
                    model.apply(&w, &s);
                    steps.push(s);
                    break;
                }
            }
        }
        eval(ctx, &w, &steps);
    }
}

fn eval(ctx: &mut Ctx, w: &World, steps: &[Step]) {
    let h = hash_of(&(format!("{:?}", w.idents), steps));
    match run_sequence(ctx, w, steps) {
        Ok(nontrivial) => {
            ctx.exec(h, nontrivial);
            if nontrivial && steps.len() > 6 {
                ctx.sample(|| json!({"idents(ts,addr,cluster)": w.idents, "steps": format!("{steps:?}")}));
            }
        }
        Err((sig, d)) => {
            ctx.exec(h, true);
            ctx.violation(sig, d);
        }
    }
}
