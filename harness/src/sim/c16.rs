//! C16 — nodes of different clusters never exchange data.
//!
//! A real node N (real gossip server, real `handle_changes` loop, real broadcast
//! `runtime_loop`, real `handle_sync`) of cluster c, a real friend node F of the same
//! cluster, a real node X used as a scripted foreign peer, and plain UDP sockets
//! registered in N's member table as members of other clusters. Hostile traffic is
//! written frame by frame on real QUIC streams; N's tables and bookkeeping, the first
//! message of every sync session and the packets arriving at the foreign sockets are
//! what the monitor looks at. The cluster id is also switched at run time, with the
//! connections of the old cluster still open.

use std::{
    collections::BTreeMap,
    net::SocketAddr,
    sync::{
        Arc,
        atomic::{AtomicU64, Ordering},
    },
    time::{Duration, Instant},
};

use bytes::{Bytes, BytesMut};
use klukai_agent::{agent::verif_exports::handle_sync, api::peer::read_sync_msg};
use klukai_types::{
    actor::{Actor, ActorId, ClusterId},
    api::{ColumnName, SqliteValue, Statement, TableName},
    base::{CrsqlDbVersion, CrsqlSeq},
    broadcast::{BiPayload, BiPayloadV1, BroadcastV1, ChangeV1, Changeset, Timestamp, UniPayload, UniPayloadV1},
    change::Change,
    pubsub::pack_columns,
    sync::{SyncMessage, SyncMessageV1, SyncRejectionV1, SyncTraceContextV1},
    verif::{HC_INFLIGHT, HC_QUEUE},
};
use rand::{Rng, SeedableRng, seq::SliceRandom};
use serde_json::{Value, json};
use speedy::Writable;
use tokio::io::AsyncWriteExt;
use tokio_util::codec::{Encoder, FramedRead, LengthDelimitedCodec};
use uuid::Uuid;

use super::{
    Node, NodeOpts, new_node,
    subs::{self, ExecOut},
};
use crate::{
    Check,
    common::{CheckSpec, Ctx},
};

pub fn check() -> Check {
    Check {
        spec: CheckSpec {
            prop: "C16",
            level: "exploration",
            rule: "execution = real node N of cluster c in {0,1,7,65535} (gossip server, handle_changes loop, broadcast runtime_loop, handle_sync), real friend node F (same cluster), real node X as scripted foreign peer, 2-4 UDP sockets registered in N's member table as members of other clusters (some with ring-0 round-trip samples), in half of the executions one more that was first announced as a member of N's own cluster and then again with a newer identity, another address and another cluster; phases in seeded order and number: (A) uni streams from X and F carrying 1-4 change frames each, every frame declaring its own cluster id (other ids, c itself, or truncated before the id = 0), closed by a marker frame of N's cluster so that the stream's handling is observable; (B) sync sessions opened by X declaring every kind of id, first server message recorded; (C) outgoing: local writes on N (broadcast) and handle_sync rounds with the mixed member table; (D) N's cluster id switched at run time with X's and F's connections open, then A-C again against the new id; oracle: a row carried by a frame is in N's table iff the frame declared N's current cluster; a sync session declaring another cluster gets Rejection(DifferentCluster) as first message and nothing else; no packet ever reaches a foreign member's socket; non-trivial = execution with foreign and same-cluster frames, foreign and same-cluster sessions and outgoing traffic observed at the friend; distinct by hash of the schedule",
            assumptions: &[
                "members are put into N's table directly (the SWIM exchange itself is not run); foreign members are UDP sockets, so a contact shows as a QUIC Initial packet",
                "the admin command's effect is reproduced with Agent::set_cluster_id (the admin socket lives in the binary crate)",
            ],
            min_nontrivial: 10,
            required_stats: &["uni.frames_foreign", "uni.frames_same_cluster", "uni.frames_truncated", "uni.rows_applied", "sync.sessions_foreign", "sync.sessions_same_cluster", "sync.rejections_seen", "outgoing.friend_received_broadcast", "outgoing.synced_from_friend", "cluster_id_switches", "foreign_sockets", "members_renewed_into_another_cluster"],
        },
        budget: (70, 900),
        workers: (10, 14),
        run,
    }
}

fn fake_actor(i: u8) -> ActorId {
    let mut b = [0xC6u8; 16];
    b[15] = i;
    ActorId(Uuid::from_bytes(b))
}

fn one_row_change(actor: ActorId, version: u64, row: i64) -> ChangeV1 {
    ChangeV1 {
        actor_id: actor,
        changeset: Changeset::Full {
            version: CrsqlDbVersion(version),
            changes: vec![Change {
                table: TableName("t3".into()),
                pk: pack_columns(&[SqliteValue::Integer(row)]).unwrap(),
                cid: ColumnName("payload".into()),
                val: SqliteValue::Text(format!("r{row}").into()),
                col_version: 1,
                db_version: CrsqlDbVersion(version),
                seq: CrsqlSeq(0),
                site_id: actor.to_bytes(),
                cl: 1,
            }],
            seqs: CrsqlSeq(0)..=CrsqlSeq(0),
            last_seq: CrsqlSeq(0),
            ts: Timestamp::from((version << 20) + 5),
        },
    }
}

#[derive(Clone, Copy, Debug, PartialEq)]
enum Declared {
    Id(u16),
    /// frame cut before the cluster id: decodes as 0
    Truncated,
}

impl Declared {
    fn effective(&self) -> u16 {
        match self {
            Declared::Id(x) => *x,
            Declared::Truncated => 0,
        }
    }
}

fn uni_frame(change: ChangeV1, d: Declared) -> Vec<u8> {
    let mut b = UniPayload::V1 {
        data: UniPayloadV1::Broadcast(BroadcastV1::Change(change)),
        cluster_id: ClusterId(d.effective()),
    }
    .write_to_vec()
    .unwrap();
    if d == Declared::Truncated {
        b.truncate(b.len() - 2);
    }
    b
}

fn frames_to_bytes(frames: Vec<Vec<u8>>) -> Bytes {
    let mut codec = LengthDelimitedCodec::builder().max_frame_length(100 * 1024 * 1024).new_codec();
    let mut buf = BytesMut::new();
    for f in frames {
        codec.encode(Bytes::from(f), &mut buf).unwrap();
    }
    buf.freeze()
}

fn row_present(node: &Node, row: i64) -> Result<bool, String> {
    let c = node.ro().map_err(|e| e.to_string())?;
    c.query_row("SELECT EXISTS (SELECT 1 FROM t3 WHERE id = ?)", [row], |r| r.get(0)).map_err(|e| e.to_string())
}

async fn wait_row(node: &Node, row: i64, watchdog: Duration) -> Result<bool, String> {
    let deadline = Instant::now() + watchdog;
    loop {
        if row_present(node, row)? {
            return Ok(true);
        }
        if Instant::now() > deadline {
            return Ok(false);
        }
        tokio::time::sleep(Duration::from_millis(15)).await;
    }
}

async fn wait_ingest_idle() {
    let mut stable = 0;
    for _ in 0..2000 {
        if HC_QUEUE.get() == 0 && HC_INFLIGHT.get() == 0 {
            stable += 1;
            if stable >= 4 {
                return;
            }
        } else {
            stable = 0;
        }
        tokio::time::sleep(Duration::from_millis(10)).await;
    }
}

/// a sync session opened the way a peer does; returns the first server message
async fn open_sync(client: &Node, server_addr: SocketAddr, d: Declared) -> Result<String, String> {
    let (mut tx, rx) = client.transport.open_bi(server_addr).await.map_err(|e| e.to_string())?;
    let mut read = FramedRead::new(rx, LengthDelimitedCodec::builder().max_frame_length(100 * 1024 * 1024).new_codec());
    let mut start = BiPayload::V1 {
        data: BiPayloadV1::SyncStart {
            actor_id: client.actor(),
            trace_ctx: SyncTraceContextV1::default(),
        },
        cluster_id: ClusterId(d.effective()),
    }
    .write_to_vec()
    .map_err(|e| e.to_string())?;
    if d == Declared::Truncated {
        start.truncate(start.len() - 2);
    }
    let clock = SyncMessage::V1(SyncMessageV1::Clock(client.agent.clock().new_timestamp().into())).write_to_vec().map_err(|e| e.to_string())?;
    let bytes = frames_to_bytes(vec![start, clock]);
    tx.write_all(&bytes).await.map_err(|e| e.to_string())?;
    let first = match tokio::time::timeout(Duration::from_secs(30), read_sync_msg(&mut read)).await {
        Ok(Ok(Some(m))) => m,
        Ok(Ok(None)) => return Ok("closed-without-a-message".into()),
        Ok(Err(e)) => return Err(format!("read: {e}")),
        Err(_) => return Err("no first message within the watchdog".into()),
    };
    let kind = match &first {
        SyncMessage::V1(SyncMessageV1::Rejection(SyncRejectionV1::DifferentCluster)) => "rejection-different-cluster".to_string(),
        SyncMessage::V1(SyncMessageV1::Rejection(r)) => format!("rejection-{r}"),
        SyncMessage::V1(SyncMessageV1::State(_)) => "state".to_string(),
        SyncMessage::V1(SyncMessageV1::Changeset(_)) => "changeset".to_string(),
        SyncMessage::V1(SyncMessageV1::Clock(_)) => "clock".to_string(),
        SyncMessage::V1(SyncMessageV1::Request(_)) => "request".to_string(),
    };
    // anything after a rejection?
    let mut extra = 0;
    if kind.starts_with("rejection") {
        let _ = tx.finish();
        while let Ok(Ok(Some(_))) = tokio::time::timeout(Duration::from_secs(5), read_sync_msg(&mut read)).await {
            extra += 1;
        }
    } else {
        let _ = tx.finish();
    }
    Ok(if extra > 0 { format!("{kind}+{extra}-more-messages") } else { kind })
}

struct Ex {
    stats: BTreeMap<String, u64>,
    violations: Vec<(String, Value)>,
    schedule: Vec<String>,
    next_row: i64,
    next_version: BTreeMap<u8, u64>,
}

impl Ex {
    fn stat(&mut self, k: &str, n: u64) {
        *self.stats.entry(k.into()).or_insert(0) += n;
    }
    fn row(&mut self) -> i64 {
        self.next_row += 1;
        self.next_row
    }
    fn version(&mut self, actor: u8) -> u64 {
        let v = self.next_version.entry(actor).or_insert(0);
        *v += 1;
        *v
    }
}

/// phase A: one uni stream from `sender` to N
async fn phase_uni(ex: &mut Ex, rng: &mut impl Rng, n: &Node, sender: &Node, sender_name: &str, current: u16, previous: Option<u16>, others: &[u16]) -> Result<(), String> {
    let k = rng.random_range(1..=4);
    let mut frames = vec![];
    let mut expect: Vec<(i64, Declared)> = vec![];
    for _ in 0..k {
        let d = match rng.random_range(0..10) {
            0..=5 => Declared::Id(others[rng.random_range(0..others.len())]),
            6..=7 => Declared::Truncated,
            _ => Declared::Id(current),
        };
        let actor_idx = rng.random_range(1..=3u8);
        let row = ex.row();
        let v = ex.version(actor_idx);
        frames.push(uni_frame(one_row_change(fake_actor(actor_idx), v, row), d));
        expect.push((row, d));
        match d {
            Declared::Truncated => ex.stat("uni.frames_truncated", 1),
            Declared::Id(x) if x == current => ex.stat("uni.frames_same_cluster", 1),
            _ => ex.stat("uni.frames_foreign", 1),
        }
    }
    // marker: a frame of N's own cluster in the stream makes its handling observable;
    // after a switch a second marker declares the previous cluster (if the node still
    // answers to its old id, that one is what shows up - and is itself a violation)
    let marker_row = ex.row();
    let v = ex.version(9);
    let marker = uni_frame(one_row_change(fake_actor(9), v, marker_row), Declared::Id(current));
    let pos = rng.random_range(0..=frames.len());
    frames.insert(pos, marker);
    let mut old_marker_row = None;
    if let Some(p) = previous {
        let row = ex.row();
        let v = ex.version(8);
        let pos = rng.random_range(0..=frames.len());
        frames.insert(pos, uni_frame(one_row_change(fake_actor(8), v, row), Declared::Id(p)));
        expect.push((row, Declared::Id(p)));
        old_marker_row = Some(row);
        ex.stat("uni.frames_foreign", 1);
    }
    ex.schedule.push(format!("uni[{sender_name}:{}]", expect.iter().map(|(_, d)| format!("{d:?}")).collect::<Vec<_>>().join(",")));
    sender.transport.send_uni(n.gossip_addr, frames_to_bytes(frames)).await.map_err(|e| format!("send_uni: {e}"))?;
    let deadline = Instant::now() + Duration::from_secs(40);
    loop {
        if row_present(n, marker_row)? || (old_marker_row.is_some() && row_present(n, old_marker_row.unwrap())?) {
            break;
        }
        if Instant::now() > deadline {
            return Err("no marker frame of the stream was applied within the watchdog (stream handling not observable)".into());
        }
        tokio::time::sleep(Duration::from_millis(15)).await;
    }
    wait_ingest_idle().await;
    for (row, d) in expect {
        let present = row_present(n, row)?;
        let should = d.effective() == current;
        if present {
            ex.stat("uni.rows_applied", 1);
        }
        if present && !should {
            ex.violations.push((
                "ingest/change-declaring-another-cluster-applied".into(),
                json!({"declared": format!("{d:?}"), "node_cluster": current, "row": row, "sender": sender_name, "schedule": ex.schedule}),
            ));
        }
        if !present && should {
            ex.stat("uni.same_cluster_frames_not_applied", 1);
        }
    }
    Ok(())
}

/// phase B: sync sessions from X
async fn phase_sync(ex: &mut Ex, rng: &mut impl Rng, n: &Node, x: &Node, current: u16, others: &[u16]) -> Result<(), String> {
    for _ in 0..rng.random_range(1..=3) {
        let d = match rng.random_range(0..10) {
            0..=5 => Declared::Id(others[rng.random_range(0..others.len())]),
            6..=7 => Declared::Truncated,
            _ => Declared::Id(current),
        };
        let first = open_sync(x, n.gossip_addr, d).await?;
        ex.schedule.push(format!("sync[{d:?}]={first}"));
        if d.effective() == current {
            ex.stat("sync.sessions_same_cluster", 1);
            if first != "state" {
                return Err(format!("a session declaring N's own cluster got {first} instead of the state"));
            }
        } else {
            ex.stat("sync.sessions_foreign", 1);
            if first == "rejection-different-cluster" {
                ex.stat("sync.rejections_seen", 1);
            } else {
                ex.violations.push((
                    "sync/session-of-another-cluster-not-rejected".into(),
                    json!({"declared": format!("{d:?}"), "node_cluster": current, "first_message": first, "schedule": ex.schedule}),
                ));
            }
        }
    }
    Ok(())
}

pub async fn one_execution(seed: u64) -> Result<ExecOut, String> {
    let mut rng = rand::rngs::StdRng::seed_from_u64(seed);
    let ids = [0u16, 1, 7, 65535];
    let c = ids[rng.random_range(0..ids.len())];
    let mk = |idx: usize, cluster: u16, hc: bool, bc: bool| async move {
        new_node(
            idx,
            NodeOpts {
                cluster_id: Some(cluster),
                run_handle_changes: hc,
                run_broadcast: bc,
                ..Default::default()
            },
        )
        .await
        .map_err(|e| e.to_string())
    };
    let others: Vec<u16> = ids.iter().copied().filter(|x| *x != c).chain([2u16, 300]).collect();
    // clusters the node itself never joins: members registered with them stay foreign
    let never_joined = [2u16, 300, 12345];
    let n = mk(0, c, true, true).await?;
    let mut f = mk(1, c, false, false).await?;
    let x = mk(2, others[0], false, false).await?;
    let _ = klukai_types::verif::take_log();
    let mut ex = Ex {
        stats: BTreeMap::new(),
        violations: vec![],
        schedule: vec![format!("cluster={c}")],
        next_row: 5_000_000,
        next_version: BTreeMap::new(),
    };

    // foreign members: UDP sockets that count what reaches them
    let mut sinks: Vec<(SocketAddr, Arc<AtomicU64>, u16)> = vec![];
    let mut sink_tasks = vec![];
    for i in 0..rng.random_range(2..=4usize) {
        let sock = tokio::net::UdpSocket::bind("127.0.0.1:0").await.map_err(|e| e.to_string())?;
        let addr = sock.local_addr().map_err(|e| e.to_string())?;
        let count = Arc::new(AtomicU64::new(0));
        let c2 = count.clone();
        sink_tasks.push(tokio::spawn(async move {
            let mut buf = [0u8; 2048];
            while sock.recv_from(&mut buf).await.is_ok() {
                c2.fetch_add(1, Ordering::SeqCst);
            }
        }));
        sinks.push((addr, count, never_joined[i % never_joined.len()]));
        ex.stat("foreign_sockets", 1);
    }
    // N's member table: the friend and the foreign members; some foreign ones look very close
    {
        let mut m = n.agent.members().write();
        m.add_member(&Actor::new(f.actor(), f.gossip_addr, Timestamp::from(100u64), ClusterId(c)));
        m.add_rtt(f.gossip_addr, Duration::from_millis(1));
        for (i, (addr, _, cl)) in sinks.iter().enumerate() {
            m.add_member(&Actor::new(ActorId(Uuid::from_bytes([0xD0 + i as u8; 16])), *addr, Timestamp::from(100u64), ClusterId(*cl)));
            if i % 2 == 0 {
                m.add_rtt(*addr, Duration::from_millis(1));
            }
        }
    }
    // a member of N's own cluster that is announced again with a newer identity: new address,
    // and now declaring another cluster; from then on it is a foreign member like the others
    if rng.random_range(0..2) == 0 {
        let old = tokio::net::UdpSocket::bind("127.0.0.1:0").await.map_err(|e| e.to_string())?;
        let old_addr = old.local_addr().map_err(|e| e.to_string())?;
        let sock = tokio::net::UdpSocket::bind("127.0.0.1:0").await.map_err(|e| e.to_string())?;
        let addr = sock.local_addr().map_err(|e| e.to_string())?;
        let count = Arc::new(AtomicU64::new(0));
        let c2 = count.clone();
        sink_tasks.push(tokio::spawn(async move {
            let _old = old;
            let mut buf = [0u8; 2048];
            while sock.recv_from(&mut buf).await.is_ok() {
                c2.fetch_add(1, Ordering::SeqCst);
            }
        }));
        let who = ActorId(Uuid::from_bytes([0xE1; 16]));
        let moved_to = never_joined[rng.random_range(0..never_joined.len())];
        let mut m = n.agent.members().write();
        m.add_member(&Actor::new(who, old_addr, Timestamp::from(100u64), ClusterId(c)));
        m.add_rtt(old_addr, Duration::from_millis(1));
        m.add_member(&Actor::new(who, addr, Timestamp::from(200u64), ClusterId(moved_to)));
        m.add_rtt(addr, Duration::from_millis(1));
        sinks.push((addr, count, moved_to));
        ex.stat("members_renewed_into_another_cluster", 1);
        ex.schedule.push(format!("member renewed {c}->{moved_to}"));
    }
    // the friend holds data of its own
    let (st, _) = f.tx(vec![Statement::WithParams("INSERT INTO t1 (id, a) VALUES (?, ?)".into(), vec![777i64.into(), "from-friend".into()])]).await;
    if st != 200 {
        return Err(format!("friend transaction status {st}"));
    }

    let mut current = c;
    let mut previous: Option<u16> = None;
    let mut friend_is_same_cluster = true;
    let mut local_rows = 0i64;
    let rounds = rng.random_range(2..=3);
    for round in 0..rounds {
        let mut phases = vec!['A', 'A', 'B', 'C'];
        phases.shuffle(&mut rng);
        let cur_others: Vec<u16> = others.iter().copied().chain([c]).filter(|x| *x != current).collect();
        for p in phases {
            match p {
                'A' => {
                    let (sender, name) = if rng.random_range(0..3) == 0 { (&f, "friend") } else { (&x, "foreign-node") };
                    phase_uni(&mut ex, &mut rng, &n, sender, name, current, previous, &cur_others).await?;
                }
                'B' => phase_sync(&mut ex, &mut rng, &n, &x, current, &cur_others).await?,
                _ => {
                    // outgoing: a local write (broadcast) and a sync round
                    local_rows += 1;
                    let (st, resp) = n.tx(vec![Statement::WithParams("INSERT INTO t1 (id, a) VALUES (?, ?)".into(), vec![(9000 + local_rows).into(), format!("n{local_rows}").into()])]).await;
                    if st != 200 {
                        return Err(format!("local transaction status {st}"));
                    }
                    let version = resp.version.unwrap_or(0);
                    ex.schedule.push(format!("write v{version}+handle_sync"));
                    if let Err(e) = handle_sync(&n.agent, &n.bookie, &n.transport).await {
                        ex.stat("outgoing.handle_sync_errors", 1);
                        ex.schedule.push(format!("handle_sync error: {e}"));
                    }
                    if friend_is_same_cluster {
                        // the friend must see the broadcast (this also tells us the send round ran)
                        let deadline = Instant::now() + Duration::from_secs(40);
                        let mut got = false;
                        while Instant::now() < deadline && !got {
                            if let Ok(Some((cv, _))) = tokio::time::timeout(Duration::from_millis(200), f.rx_changes.recv()).await
                                && cv.actor_id == n.actor()
                                && cv.versions().contains(&CrsqlDbVersion(version))
                            {
                                got = true;
                            }
                        }
                        if !got {
                            return Err("the friend never received the broadcast of a local write within the watchdog".into());
                        }
                        ex.stat("outgoing.friend_received_broadcast", 1);
                        // and N obtained the friend's row through its sync round
                        let c = n.ro().map_err(|e| e.to_string())?;
                        let has: bool = c.query_row("SELECT EXISTS (SELECT 1 FROM t1 WHERE id = 777)", [], |r| r.get(0)).map_err(|e| e.to_string())?;
                        if has {
                            ex.stat("outgoing.synced_from_friend", 1);
                        }
                    } else {
                        // the friend now belongs to another cluster: nothing may reach it any more
                        tokio::time::sleep(Duration::from_millis(1200)).await;
                        while let Ok((cv, _)) = f.rx_changes.try_recv() {
                            if cv.actor_id == n.actor() && cv.versions().contains(&CrsqlDbVersion(version)) {
                                ex.violations.push((
                                    "outgoing/broadcast-sent-to-member-of-another-cluster".into(),
                                    json!({"node_cluster": current, "member_cluster": c, "version": version, "schedule": ex.schedule}),
                                ));
                            }
                        }
                        ex.stat("outgoing.rounds_with_friend_in_other_cluster", 1);
                    }
                }
            }
            if !ex.violations.is_empty() {
                break;
            }
        }
        if !ex.violations.is_empty() {
            break;
        }
        if round + 1 < rounds {
            // (D) the cluster id changes at run time; every connection stays open
            let joinable: Vec<u16> = ids.iter().copied().filter(|x| *x != current).collect();
            let new = joinable[rng.random_range(0..joinable.len())];
            n.agent.set_cluster_id(ClusterId(new));
            ex.schedule.push(format!("switch {current}->{new}"));
            ex.stat("cluster_id_switches", 1);
            previous = Some(current);
            current = new;
            friend_is_same_cluster = new == c;
        }
    }

    // foreign members must never have been contacted
    tokio::time::sleep(Duration::from_millis(600)).await;
    for (addr, count, cl) in &sinks {
        let k = count.load(Ordering::SeqCst);
        if k > 0 {
            ex.violations.push((
                "outgoing/packets-sent-to-member-of-another-cluster".into(),
                json!({"member_addr": addr.to_string(), "member_cluster": cl, "packets": k, "node_cluster_history": ex.schedule.iter().filter(|s| s.starts_with("switch") || s.starts_with("cluster=")).collect::<Vec<_>>(), "schedule": ex.schedule}),
            ));
        }
    }
    for t in sink_tasks {
        t.abort();
    }
    let s = &ex.stats;
    let g = |k: &str| s.get(k).copied().unwrap_or(0);
    let nontrivial = g("uni.frames_foreign") > 0 && g("uni.rows_applied") > 0 && g("sync.sessions_foreign") > 0 && g("outgoing.friend_received_broadcast") > 0;
    let hash = ex.schedule.join(";");
    let sample = json!({"schedule": ex.schedule.iter().take(16).collect::<Vec<_>>()});
    drop(n.shutdown().await);
    drop(f.shutdown().await);
    drop(x.shutdown().await);
    let mut seen = std::collections::BTreeSet::new();
    ex.violations.retain(|(s, _)| seen.insert(s.clone()));
    Ok(ExecOut {
        violations: ex.violations,
        hash,
        nontrivial,
        stats: ex.stats,
        sample: Some(sample),
    })
}

fn run(ctx: &mut Ctx) {
    subs::run_loop(ctx, 4, 300, one_execution);
}
