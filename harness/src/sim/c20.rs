//! C20 — database writers are mutually exclusive, prioritised and never deadlock.
//!
//! Stress of one real node: requesters on the three write queues (with holds and
//! cancellations) run concurrently with the agent's own writers and readers while
//! seeded delays are injected at the hook points. An offline checker reads the hook
//! event log (exclusivity, priority as a happens-before statement on sequence
//! numbers); a stall is judged only with a live heartbeat and blocked lock entries.

use std::{
    collections::{BTreeMap, BTreeSet},
    sync::{
        Arc,
        atomic::{AtomicBool, AtomicU64, Ordering},
    },
    time::{Duration, Instant},
};

use klukai_agent::agent::util::process_fully_buffered_changes;
use klukai_types::{
    agent::LockState,
    api::Statement,
    base::{CrsqlDbVersion, CrsqlSeq},
    broadcast::{ChangeSource, ChangeV1, Changeset, Timestamp},
    sync::generate_sync,
    verif,
};
use rand::{Rng, SeedableRng};
use serde_json::{Value, json};

use super::{NodeOpts, new_node};
use crate::{
    Check,
    common::{CheckSpec, Ctx, chance, hash_str},
};

pub fn check() -> Check {
    Check {
        spec: CheckSpec {
            prop: "C20",
            level: "exploration",
            rule: "execution = one real node under 3-64 concurrent requesters on the priority/normal/low write queues (random hold times, futures dropped while queued and while holding) together with the agent's own activities on real data: local transactions, process_multiple_changes batches for several actors (complete and partial), process_fully_buffered_changes, generate_sync readers, buffered-meta clearing; seeded delays at every write-queue and lock hook point; oracles over the hook event log: never more than one live WriteConn (gauge sampled at every permit), a request granted right after a release must not bypass a higher-priority request whose enqueue completed before that release, every task completes; a stall is a violation only with >= 30 s without any hook event while the heartbeat task runs and the lock registry shows blocked entries; non-trivial = execution with >= 2 queues contended at a release; distinct by hash of the grant order",
            assumptions: &[
                "interleavings are sampled under delay injection, not enumerated",
                "priority is judged only at release points (when nothing holds the connection the first arrival wins, by design)",
            ],
            min_nontrivial: 10,
            required_stats: &["grants", "releases_with_contention", "priority_decisions_checked", "cancelled_while_queued", "cancelled_while_holding", "agent.pmc_batches", "agent.local_txs", "agent.generate_sync_calls"],
        },
        budget: (60, 900),
        workers: (8, 12),
        run,
    }
}

fn prio(q: &str) -> u8 {
    match q {
        "priority" => 0,
        "normal" => 1,
        _ => 2,
    }
}

#[derive(Default, Debug, Clone)]
struct Req {
    queue: String,
    enq: Option<u64>,
    granted: Option<u64>,
    permit: Option<u64>,
    released: Option<u64>,
}

/// offline checker over the hook log
fn check_log(events: &[verif::Event], first_request: u64, cancelled_hint: u64, stats: &mut BTreeMap<String, u64>) -> (Vec<(String, Value)>, String, bool) {
    let mut reqs: BTreeMap<u64, Req> = BTreeMap::new();
    let mut violations = vec![];
    let mut grant_order: Vec<u64> = vec![];
    let mut live_max = 0i64;
    for ev in events {
        if !ev.label.starts_with("wq.") {
            continue;
        }
        let mut it = ev.payload.split(' ');
        let id: u64 = it.next().and_then(|s| s.parse().ok()).unwrap_or(0);
        if id <= first_request {
            *stats.entry("events_of_earlier_executions_ignored".into()).or_insert(0) += 1;
            continue;
        }
        let queue = it.next().unwrap_or("").to_string();
        let r = reqs.entry(id).or_default();
        r.queue = queue;
        match ev.label.as_str() {
            "wq.enqueued" => r.enq = Some(ev.seq),
            "wq.granted" => {
                r.granted = Some(ev.seq);
                grant_order.push(id);
            }
            "wq.permit" => {
                r.permit = Some(ev.seq);
                let live: i64 = it.next().and_then(|s| s.strip_prefix("live=")).and_then(|s| s.parse().ok()).unwrap_or(0);
                live_max = live_max.max(live);
                if live > 1 {
                    violations.push(("exclusivity/two-write-connections-alive".to_string(), json!({"request": id, "live_writers": live})));
                }
            }
            "wq.released" => r.released = Some(ev.seq),
            _ => {}
        }
    }
    *stats.entry("grants".into()).or_insert(0) += grant_order.len() as u64;
    // exclusivity by intervals as well: [permit, released) must not overlap
    let mut intervals: Vec<(u64, u64, u64)> = reqs.iter().filter_map(|(id, r)| Some((r.permit?, r.released.unwrap_or(u64::MAX), *id))).collect();
    intervals.sort();
    for w in intervals.windows(2) {
        if w[1].0 < w[0].1 {
            violations.push(("exclusivity/holder-intervals-overlap".to_string(), json!({"first": w[0].2, "second": w[1].2})));
        }
    }
    // priority at release points
    let mut releases: Vec<(u64, u64)> = reqs.iter().filter_map(|(id, r)| r.released.map(|s| (s, *id))).collect();
    releases.sort();
    let mut grants: Vec<(u64, u64)> = reqs.iter().filter_map(|(id, r)| r.granted.map(|s| (s, *id))).collect();
    grants.sort();
    let mut nontrivial = false;
    for (rel_seq, _holder) in releases.iter() {
        // first grant after this release
        let Some((g_seq, gid)) = grants.iter().find(|(s, _)| s > rel_seq).cloned() else { continue };
        // only if no other release sits between (then that later release is the relevant one)
        if releases.iter().any(|(s, _)| s > rel_seq && *s < g_seq) {
            continue;
        }
        let g = &reqs[&gid];
        // requests enqueued before the release and not granted before it
        let waiting: Vec<(&u64, &Req)> = reqs
            .iter()
            .filter(|(id, r)| **id != gid && r.enq.map(|e| e < *rel_seq).unwrap_or(false) && r.granted.map(|s| s > g_seq).unwrap_or(true))
            .collect();
        let queues: BTreeSet<&str> = waiting.iter().map(|(_, r)| r.queue.as_str()).chain(std::iter::once(g.queue.as_str())).collect();
        if g.enq.map(|e| e < *rel_seq).unwrap_or(false) {
            *stats.entry("priority_decisions_checked".into()).or_insert(0) += 1;
            if queues.len() >= 2 {
                *stats.entry("releases_with_contention".into()).or_insert(0) += 1;
                nontrivial = true;
            }
        }
        for (wid, w) in waiting {
            // a request that was never granted may have been cancelled while queued: the
            // dispatcher skips it; only requests that were eventually granted are binding
            if w.granted.is_none() {
                continue;
            }
            if prio(&w.queue) < prio(&g.queue) {
                violations.push((
                    "priority/lower-priority-request-granted-before-waiting-higher-priority-one".to_string(),
                    json!({"granted": {"id": gid, "queue": g.queue}, "bypassed": {"id": wid, "queue": w.queue, "enqueued_seq": w.enq, "granted_seq": w.granted}, "release_seq": rel_seq, "grant_seq": g_seq}),
                ));
            }
        }
    }
    let _ = cancelled_hint;
    *stats.entry("max_live_writers_seen".into()).or_insert(0) = (*stats.get("max_live_writers_seen").unwrap_or(&0)).max(live_max as u64);
    let h = format!("{:?}", grant_order.iter().map(|id| reqs[id].queue.chars().next().unwrap_or('?')).collect::<String>());
    (violations, h, nontrivial)
}

fn fake_change(actor: u8, version: u64, k: usize, a: usize, b: usize) -> ChangeV1 {
    use klukai_types::{
        api::{ColumnName, SqliteValue, TableName},
        change::Change,
        pubsub::pack_columns,
    };
    let mut id = [0xB0u8; 16];
    id[15] = actor;
    let actor_id = klukai_types::actor::ActorId(uuid::Uuid::from_bytes(id));
    ChangeV1 {
        actor_id,
        changeset: Changeset::Full {
            version: CrsqlDbVersion(version),
            changes: (a..=b)
                .map(|i| Change {
                    table: TableName("t3".into()),
                    pk: pack_columns(&[SqliteValue::Integer(actor as i64 * 1_000_000 + version as i64 * 1000 + i as i64)]).unwrap(),
                    cid: ColumnName("payload".into()),
                    val: SqliteValue::Text(format!("b{actor}v{version}c{i}").into()),
                    col_version: 1,
                    db_version: CrsqlDbVersion(version),
                    seq: CrsqlSeq(i as u64),
                    site_id: id,
                    cl: 1,
                })
                .collect(),
            seqs: CrsqlSeq(a as u64)..=CrsqlSeq(b as u64),
            last_seq: CrsqlSeq(k as u64 - 1),
            ts: Timestamp::from((version << 32) + actor as u64 + 7),
        },
    }
}

pub async fn one_execution(seed: u64, stats: &mut BTreeMap<String, u64>) -> Result<(Vec<(String, Value)>, String, bool), String> {
    let mut rng = rand::rngs::StdRng::seed_from_u64(seed);
    // a third of the executions run with a tiny apply-trigger channel (a legal perf setting):
    // whoever announces a completed version must never wait for a slot while holding the
    // write connection, because the consumer of that channel needs the connection itself
    let small_apply = rng.random_range(0..3) == 0;
    let apply_len = *crate::common::pick(&mut rng, &[1usize, 2]);
    let mut opts = NodeOpts::default();
    if small_apply {
        opts.perf = Some(Box::new(move |p| p.apply_channel_len = apply_len));
        *stats.entry("executions_with_tiny_apply_channel".into()).or_insert(0) += 1;
    }
    // nothing of an earlier execution of this process may reach into this one: no write
    // connection of an earlier node is alive, and requests numbered before the marker are
    // not ours
    for _ in 0..400 {
        if verif::LIVE_WRITERS.get() == 0 {
            break;
        }
        tokio::time::sleep(Duration::from_millis(5)).await;
    }
    if verif::LIVE_WRITERS.get() != 0 {
        return Err(format!("a write connection of an earlier execution is still alive (gauge {})", verif::LIVE_WRITERS.get()));
    }
    let first_request = verif::next_writer_request();
    let mut node = new_node(0, opts).await.map_err(|e| e.to_string())?;
    let _ = verif::take_log();
    verif::set_record(true);
    verif::set_seed(seed);
    // delays at every write-queue / lock / commit hook point
    let p = *crate::common::pick(&mut rng, &[100u32, 300, 700]);
    let max_us = *crate::common::pick(&mut rng, &[200u64, 1_000, 4_000]);
    verif::set_delay("*", p, max_us);

    let progress = Arc::new(AtomicU64::new(0));
    let stop = Arc::new(AtomicBool::new(false));
    let mut handles: Vec<(String, tokio::task::JoinHandle<Result<(), String>>)> = vec![];
    let cancelled_q = Arc::new(AtomicU64::new(0));
    let cancelled_h = Arc::new(AtomicU64::new(0));

    // ---- plain requesters
    let n_req = *crate::common::pick(&mut rng, &[3usize, 8, 16, 32, 64]);
    for i in 0..n_req {
        let pool = node.agent.pool().clone();
        let progress = progress.clone();
        let (cq, ch) = (cancelled_q.clone(), cancelled_h.clone());
        let rs: u64 = rng.random();
        handles.push((
            format!("requester{i}"),
            tokio::spawn(async move {
                let mut rng = rand::rngs::StdRng::seed_from_u64(rs);
                for _ in 0..rng.random_range(2..6) {
                    let q = rng.random_range(0..3);
                    let hold = Duration::from_micros(rng.random_range(0..3_000));
                    let cancel_queued = rng.random_range(0..10) == 0;
                    let cancel_holding = rng.random_range(0..10) == 0;
                    let fut = async {
                        let c = match q {
                            0 => pool.write_priority().await,
                            1 => pool.write_normal().await,
                            _ => pool.write_low().await,
                        }
                        .map_err(|e| e.to_string())?;
                        tokio::time::sleep(hold).await;
                        // touch the connection
                        let _: i64 = c.query_row("SELECT 1", [], |r| r.get(0)).map_err(|e| e.to_string())?;
                        if cancel_holding {
                            // the future is dropped while holding: wait here until cancelled
                            tokio::time::sleep(Duration::from_secs(3600)).await;
                        }
                        Ok::<(), String>(())
                    };
                    if cancel_queued {
                        // drop the future shortly after it started (probably still queued)
                        let _ = tokio::time::timeout(Duration::from_micros(rng.random_range(1..500)), fut).await;
                        cq.fetch_add(1, Ordering::SeqCst);
                    } else if cancel_holding {
                        let _ = tokio::time::timeout(hold + Duration::from_millis(rng.random_range(5..40)), fut).await;
                        ch.fetch_add(1, Ordering::SeqCst);
                    } else {
                        fut.await?;
                    }
                    progress.fetch_add(1, Ordering::SeqCst);
                }
                Ok(())
            }),
        ));
    }

    // ---- the agent's own writers and readers
    // local transactions
    for w in 0..2 {
        let agent = node.agent.clone();
        let progress = progress.clone();
        let rs: u64 = rng.random();
        handles.push((
            format!("local{w}"),
            tokio::spawn(async move {
                let mut rng = rand::rngs::StdRng::seed_from_u64(rs);
                for i in 0..rng.random_range(5..15) {
                    let (status, _) = klukai_agent::api::public::api_v1_transactions(
                        axum::Extension(agent.clone()),
                        axum::extract::Query(klukai_agent::api::public::TimeoutParams { timeout: None }),
                        axum::extract::Json(vec![Statement::WithParams(
                            "INSERT INTO t1 (id, a) VALUES (?, ?) ON CONFLICT (id) DO UPDATE SET a = excluded.a".into(),
                            vec![(rng.random_range(1..5) as i64).into(), format!("l{w}_{i}").into()],
                        )]),
                    )
                    .await;
                    if status.as_u16() != 200 {
                        return Err(format!("local tx status {status}"));
                    }
                    progress.fetch_add(1, Ordering::SeqCst);
                }
                Ok(())
            }),
        ));
    }
    // remote applies for several actors, partial chunks then completion
    let total_versions = Arc::new(AtomicU64::new(0));
    for actor in 1..=3u8 {
        let (agent, bookie) = (node.agent.clone(), node.bookie.clone());
        let progress = progress.clone();
        let tv = total_versions.clone();
        let rs: u64 = rng.random();
        handles.push((
            format!("pmc{actor}"),
            tokio::spawn(async move {
                let mut rng = rand::rngs::StdRng::seed_from_u64(rs);
                let n_versions = rng.random_range(3..8u64);
                let mut first_single = 1u64;
                if rng.random_range(0..2) == 0 {
                    // several versions completed by ONE ingest call: their first halves in one
                    // batch, the second halves in another
                    let k = 6usize;
                    let g = rng.random_range(2..=n_versions.min(4));
                    for half in [(3usize, 5usize), (0, 2)] {
                        let batch: Vec<_> = (1..=g).map(|v| (fake_change(actor, v, k, half.0, half.1), ChangeSource::Sync, Instant::now())).collect();
                        klukai_agent::agent::process_multiple_changes(agent.clone(), bookie.clone(), batch, Duration::from_secs(60))
                            .await
                            .map_err(|e| e.to_string())?;
                        progress.fetch_add(1, Ordering::SeqCst);
                    }
                    tv.fetch_add(g, Ordering::SeqCst);
                    first_single = g + 1;
                }
                for v in first_single..=n_versions {
                    let k = 6usize;
                    let batch: Vec<ChangeV1> = if rng.random_range(0..2) == 0 {
                        vec![fake_change(actor, v, k, 0, k - 1)]
                    } else {
                        // two partial chunks in separate calls
                        vec![fake_change(actor, v, k, 3, 5), fake_change(actor, v, k, 0, 2)]
                    };
                    for c in batch {
                        klukai_agent::agent::process_multiple_changes(agent.clone(), bookie.clone(), vec![(c, ChangeSource::Sync, Instant::now())], Duration::from_secs(60))
                            .await
                            .map_err(|e| e.to_string())?;
                        progress.fetch_add(1, Ordering::SeqCst);
                    }
                    tv.fetch_add(1, Ordering::SeqCst);
                }
                Ok(())
            }),
        ));
    }
    // sync-state readers
    for w in 0..2 {
        let (agent, bookie) = (node.agent.clone(), node.bookie.clone());
        let (progress, stop) = (progress.clone(), stop.clone());
        handles.push((
            format!("gensync{w}"),
            tokio::spawn(async move {
                while !stop.load(Ordering::SeqCst) {
                    let _ = generate_sync(&bookie, agent.actor_id()).await;
                    // readers are not counted as progress: they keep going while every
                    // writer is wedged
                    let _ = &progress;
                    tokio::time::sleep(Duration::from_micros(300)).await;
                }
                Ok(())
            }),
        ));
    }

    // ---- supervise: apply triggers + clears in the main task, heartbeat, stall detection
    let start = Instant::now();
    let mut last_progress = (0u64, Instant::now());
    let mut last_hook_seq = 0u64;
    let mut all_events: Vec<verif::Event> = vec![];
    let mut gensync_calls = 0u64;
    let mut stalled: Option<Value> = None;
    let mut pending_apply = 0u64;
    loop {
        // collect hook events (also serves as liveness signal)
        let evs = verif::take_log();
        if let Some(e) = evs.last() {
            last_hook_seq = e.seq;
        }
        for e in evs.iter() {
            if e.label == "pmc.apply_trigger" {
                pending_apply += 1;
                if std::env::var_os("VH_VERBOSE").is_some() {
                    eprintln!("trigger event: {}", e.payload);
                }
            }
        }
        all_events.extend(evs);
        // buffered applies + clears as the agent would run them
        {
            // take exactly as many triggers as the hook has announced so far
            while pending_apply > 0 {
                let Ok((actor, version)) = node.rx_apply.try_recv() else { break };
                pending_apply -= 1;
                if std::env::var_os("VH_VERBOSE").is_some() {
                    eprintln!("trigger received: {actor} {version}");
                }
                let r = tokio::time::timeout(Duration::from_secs(120), process_fully_buffered_changes(&node.agent, &node.bookie, actor, version, Duration::from_secs(60))).await;
                match r {
                    Ok(Ok(_)) => {
                        *stats.entry("agent.buffered_applies".into()).or_insert(0) += 1;
                        progress.fetch_add(1, Ordering::SeqCst);
                    }
                    Ok(Err(e)) => return Err(format!("buffered apply: {e}")),
                    // not progress: judged by the stall detector below
                    Err(_) => *stats.entry("agent.buffered_apply_gave_up_after_120s".into()).or_insert(0) += 1,
                }
            }
        }
        let n = node.forward_clears().await;
        *stats.entry("agent.clear_requests".into()).or_insert(0) += n;

        let workers_done = handles.iter().filter(|(n, _)| !n.starts_with("gensync")).all(|(_, h)| h.is_finished());
        if workers_done && pending_apply == 0 {
            break;
        }
        let p = progress.load(Ordering::SeqCst);
        if p != last_progress.0 {
            last_progress = (p, Instant::now());
        } else if last_progress.1.elapsed() > Duration::from_secs(90) {
            // no writer task completed a single operation for 90 s (operations take
            // milliseconds) although this supervising task (the heartbeat) runs
            let reg = node.bookie.registry().map.read();
            let blocked: Vec<String> = reg
                .values()
                .filter(|m| matches!(m.state, LockState::Acquiring))
                .map(|m| format!("{} ({:?}, waiting {:?})", m.label, m.kind, m.started_at.elapsed()))
                .collect();
            let held: Vec<String> = reg
                .values()
                .filter(|m| matches!(m.state, LockState::Locked))
                .map(|m| format!("{} ({:?}, held {:?})", m.label, m.kind, m.started_at.elapsed()))
                .collect();
            let unfinished: Vec<String> = handles.iter().filter(|(_, h)| !h.is_finished()).map(|(n, _)| n.clone()).collect();
            stalled = Some(json!({"no_progress_for_s": last_progress.1.elapsed().as_secs(), "unfinished_tasks": unfinished, "locks_being_acquired": blocked, "locks_held": held, "live_writers": verif::LIVE_WRITERS.get(), "last_hook_seq": last_hook_seq}));
            break;
        }
        if start.elapsed() > Duration::from_secs(240) {
            let unfinished: Vec<String> = handles.iter().filter(|(_, h)| !h.is_finished()).map(|(n, _)| n.clone()).collect();
            return Err(format!("execution still progressing after 240s: unfinished={unfinished:?} pending_apply={pending_apply} progress={}", progress.load(Ordering::SeqCst)));
        }
        tokio::time::sleep(Duration::from_millis(2)).await;
    }
    stop.store(true, Ordering::SeqCst);
    verif::clear_delays();
    let mut violations: Vec<(String, Value)> = vec![];
    if let Some(s) = stalled {
        violations.push(("deadlock/tasks-blocked-forever-on-write-connection-or-bookkeeping-locks".into(), s));
    } else {
        for (name, h) in handles {
            match tokio::time::timeout(Duration::from_secs(30), h).await {
                Ok(Ok(Ok(()))) => {}
                Ok(Ok(Err(e))) => return Err(format!("task {name}: {e}")),
                Ok(Err(e)) => return Err(format!("task {name} panicked: {e}")),
                Err(_) => return Err(format!("task {name} did not finish")),
            }
            if name.starts_with("gensync") {
                gensync_calls += 1;
            }
        }
    }
    all_events.extend(verif::take_log());
    *stats.entry("cancelled_while_queued".into()).or_insert(0) += cancelled_q.load(Ordering::SeqCst);
    *stats.entry("cancelled_while_holding".into()).or_insert(0) += cancelled_h.load(Ordering::SeqCst);
    *stats.entry("agent.pmc_batches".into()).or_insert(0) += all_events.iter().filter(|e| e.label == "pmc.after_commit").count() as u64;
    *stats.entry("agent.local_txs".into()).or_insert(0) += all_events.iter().filter(|e| e.label == "local.after_commit").count() as u64;
    *stats.entry("agent.generate_sync_calls".into()).or_insert(0) += all_events.iter().filter(|e| e.label == "lock.acquiring" && e.payload.contains("generate_sync")).count() as u64 + gensync_calls;
    *stats.entry("hook_events".into()).or_insert(0) += all_events.len() as u64;
    let (mut v2, h, nontrivial) = check_log(&all_events, first_request, cancelled_q.load(Ordering::SeqCst), stats);
    if v2.iter().any(|(s, _)| s.starts_with("exclusivity/")) {
        // keep the write-queue events around the first overlap as part of the witness
        let ids: BTreeSet<u64> = v2.iter().filter(|(s, _)| s.starts_with("exclusivity/")).flat_map(|(_, d)| [d["request"].as_u64(), d["first"].as_u64(), d["second"].as_u64()]).flatten().collect();
        let slice: Vec<String> = all_events.iter().filter(|e| e.label.starts_with("wq.") && e.payload.split(' ').next().and_then(|x| x.parse::<u64>().ok()).is_some_and(|i| ids.contains(&i))).map(|e| format!("#{} {} {} task{} thr{}", e.seq, e.label, e.payload, e.task, e.thread)).collect();
        for (s, d) in v2.iter_mut() {
            if s.starts_with("exclusivity/") {
                d["write_queue_events_of_the_requests_involved"] = json!(slice);
                d["first_request_of_this_execution"] = json!(first_request);
            }
        }
    }
    violations.extend(v2);
    let _ = total_versions;
    drop(node.shutdown().await);
    Ok((violations, h, nontrivial))
}

fn run(ctx: &mut Ctx) {
    std::panic::set_hook(Box::new(|_| {}));
    let rt = tokio::runtime::Builder::new_multi_thread().worker_threads(6).enable_all().build().unwrap();
    let target = ctx.tier.pick(200u64, 100_000u64);
    let only: Option<u64> = ctx.extra.iter().position(|a| a == "--exec-seed").and_then(|p| ctx.extra.get(p + 1)).and_then(|s| s.parse().ok());
    let mut i = 0u64;
    while i < target && ctx.time_left() {
        i += 1;
        let mut seed = ctx.seed.wrapping_mul(1_000_003).wrapping_add((ctx.worker as u64) << 40).wrapping_add(i);
        if let Some(o) = only {
            if i > 1 || ctx.worker != 0 {
                break;
            }
            seed = o;
        }
        let mut stats = BTreeMap::new();
        let res = rt.block_on(async { tokio::time::timeout(Duration::from_secs(400), one_execution(seed, &mut stats)).await });
        for (k, v) in stats {
            if k == "max_live_writers_seen" {
                ctx.stat_max("live_writers_seen", v);
            } else {
                ctx.stat(&k, v);
            }
        }
        match res {
            Err(_) => ctx.inconclusive(format!("execution seed {seed} exceeded the 400s watchdog")),
            Ok(Err(e)) => ctx.inconclusive(format!("execution seed {seed}: {e}")),
            Ok(Ok((violations, h, nontrivial))) => {
                ctx.exec(hash_str(&h), nontrivial);
                for (sig, mut d) in violations {
                    d["exec_seed"] = json!(seed);
                    ctx.violation(sig, d);
                }
                if nontrivial {
                    ctx.sample(|| json!({"exec_seed": seed, "grant_order_by_queue(p/n/l)": h.chars().take(200).collect::<String>()}));
                }
            }
        }
    }
}
