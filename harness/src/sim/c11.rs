//! C11 — a subscription's rows and events always equal its query run on the database.
//!
//! One real node (real `setup()`, real `api_v1_subs`, real matcher tasks, real ingest
//! and buffered-apply functions) holds several subscriptions at once. Histories of
//! local transactions and of changesets authored by a second real node (delivered
//! complete, or cut into chunks so they go through the buffered path) are applied;
//! at logical matcher quiescence the monitor compares, per subscription:
//!   * the materialised `query` table with the user's SELECT on the node database,
//!   * the fold of the event stream (initial rows + change events) with that table,
//!   * change ids (+1 each), and events that change nothing.

use std::{collections::BTreeMap, time::Duration};

use klukai_types::broadcast::ChangeV1;
use rand::{Rng, SeedableRng, seq::SliceRandom};
use serde_json::{Value, json};

use super::{
    NodeOpts, c01::rechunk, new_node,
    subs::{self, ExecOut, Pump, SUB_SCHEMA, SUB_TABLES, SubConn, SubsCtx, TxInfo},
    tables_digest,
};
use crate::{
    Check,
    common::{CheckSpec, Ctx},
};

pub fn check() -> Check {
    Check {
        spec: CheckSpec {
            prop: "C11",
            level: "exploration",
            rule: "execution = one real node with 3-6 concurrent subscriptions drawn from 19 query templates (single table with filters/expressions/CASE/BETWEEN/LIKE/IN, INNER joins over 2-3 tables with aliases, LEFT joins over 2-3 tables; composite and nullable-side keys; constants per seed) + a history of 10-25 operations: local transactions (1-5 statements over 3 tables: upserts, column updates, deletes, re-inserts, primary-key changes, multi-table), changesets authored by a second real node delivered complete or cut into chunks (buffered apply), several versions per ingest call, new subscriptions in mid-history; after an operation (p=0.6) and at the end: logical matcher quiescence from the hook log (match.sent == match.recv and idle per subscription), then materialised rows vs the user's SELECT re-run on the node database, stream fold vs materialised rows by row id, change ids, no-op events, events without any table change; half of the executions keep every change to a nullable-side table in the same transaction as a change to the joined left-hand rows (there a LEFT JOIN divergence is a violation), the other half are unconstrained (there a LEFT JOIN divergence after a nullable-side-only change is the known finding F7); non-trivial = execution in which some subscription received change events and at least 3 checkpoints were judged; distinct by hash of templates+history",
            assumptions: &[
                "queries are drawn from templates, not from a grammar: sub-queries, aggregates, DISTINCT/ORDER BY are outside",
                "a change recorded in the subscription's log but not yet delivered on the stream when the watchdog fires is inconclusive, not a violation (a skipped id is a violation once a later event arrives)",
            ],
            min_nontrivial: 10,
            required_stats: &["subscriptions", "checkpoints", "sub_checks", "change_events", "insert_events", "update_events", "delete_events", "remote_complete", "remote_buffered", "left_join_checks_in_constrained_histories"],
        },
        budget: (70, 900),
        workers: (12, 14),
        run,
    }
}

#[derive(Clone, Copy, PartialEq, Debug)]
enum Kind {
    Single,
    Inner,
    Left,
}

struct Tmpl {
    name: &'static str,
    kind: Kind,
    sql: String,
}

fn templates(rng: &mut impl Rng) -> Vec<Tmpl> {
    let n = rng.random_range(5..20);
    let m = rng.random_range(1..4);
    let t = |name: &'static str, kind: Kind, sql: String| Tmpl { name, kind, sql };
    vec![
        t("s-all", Kind::Single, "SELECT id, name, v FROM p WHERE {T}".into()),
        t("s-filter", Kind::Single, format!("SELECT id, name FROM p WHERE v > {n} AND {{T}}")),
        t("s-expr", Kind::Single, "SELECT id, v * 2 + 1, name || '-' || id FROM p WHERE grp IS NOT NULL AND {T}".into()),
        t("s-star", Kind::Single, "SELECT * FROM g WHERE {T}".into()),
        t("s-null-or", Kind::Single, "SELECT pid, k, val FROM c WHERE (val IS NULL OR val % 2 = 0) AND {T}".into()),
        t("s-nopk", Kind::Single, format!("SELECT k, note FROM c WHERE pid IN (1, 2, {m}) AND k <> 'b' AND {{T}}")),
        t("s-case", Kind::Single, format!("SELECT id, CASE WHEN v > {n} THEN name ELSE 'lo' END FROM p WHERE {{T}}")),
        t("s-between", Kind::Single, format!("SELECT id, name FROM p WHERE {n} BETWEEN 0 AND v AND {{T}}")),
        t("s-pkonly", Kind::Single, "SELECT id FROM p WHERE {T}".into()),
        t("i-pkonly", Kind::Inner, "SELECT p.id, c.k FROM p JOIN c ON c.pid = p.id WHERE {T}".into()),
        t("s-like", Kind::Single, "SELECT id, abs(coalesce(v, 0) - 5), name LIKE 'n%' FROM p WHERE {T}".into()),
        t("i-2", Kind::Inner, "SELECT p.id, p.name, c.k, c.val FROM p JOIN c ON c.pid = p.id WHERE {T}".into()),
        t("i-2g", Kind::Inner, "SELECT p.name, g.label FROM p INNER JOIN g ON p.grp = g.gid WHERE g.w > 0 AND {T}".into()),
        t("i-3", Kind::Inner, "SELECT p.id, c.k, g.label FROM p JOIN c ON c.pid = p.id JOIN g ON g.gid = p.grp WHERE {T}".into()),
        t("i-alias", Kind::Inner, "SELECT a.id, b.val + a.v FROM p AS a JOIN c AS b ON b.pid = a.id WHERE b.val IS NOT NULL AND {T}".into()),
        t("l-2", Kind::Left, "SELECT p.id, p.v, p.name, c.k, c.val FROM p LEFT JOIN c ON c.pid = p.id WHERE {T}".into()),
        t("l-2g", Kind::Left, "SELECT p.id, p.v, g.label FROM p LEFT JOIN g ON g.gid = p.grp WHERE {T}".into()),
        t("l-3", Kind::Left, "SELECT p.id, p.v, c.k, g.label FROM p LEFT JOIN c ON c.pid = p.id LEFT JOIN g ON g.gid = p.grp WHERE p.name <> 'zz' AND {T}".into()),
        t("l-coalesce", Kind::Left, format!("SELECT p.id, p.v, coalesce(c.val, -1), c.note FROM p LEFT JOIN c ON c.pid = p.id AND c.k <> 'c' WHERE coalesce(p.v, 0) < {} AND {{T}}", n + 15)),
    ]
}

struct Sub {
    conn: SubConn,
    name: &'static str,
    kind: Kind,
    sql: String,
    ncols: usize,
    /// a change touched a nullable-side table without the joined left rows (F7 territory)
    exposed: bool,
    /// change events seen at the previous checkpoint
    seen_changes: u64,
    key: String,
    dead: bool,
}

struct Ex {
    subs: Vec<Sub>,
    violations: Vec<(String, Value)>,
    stats: BTreeMap<String, u64>,
    history: Vec<String>,
}

impl Ex {
    fn stat(&mut self, k: &str, n: u64) {
        *self.stats.entry(k.into()).or_insert(0) += n;
    }
}

async fn new_sub(ex: &mut Ex, node: &super::Node, sc: &SubsCtx, tm: &Tmpl, tag: u64) -> Result<(), String> {
    let sql = tm.sql.replace("{T}", &format!("{tag} = {tag}"));
    let mut conn = subs::subscribe(node, sc, &sql, None, false).await.map_err(|e| format!("subscribe {sql:?}: {e}"))?;
    conn.read_snapshot(Duration::from_secs(60)).await.map_err(|e| format!("snapshot of {sql:?}: {e}"))?;
    let ncols = conn.replay.columns.as_ref().map(|c| c.len()).ok_or("no columns event")?;
    // initial rows == the query now (nothing was written in between)
    let q = subs::query_multiset(&*node.ro().map_err(|e| e.to_string())?, &sql).map_err(|e| format!("oracle query {sql:?}: {e}"))?;
    let r = subs::multiset_of(&conn.replay.rows);
    if q != r {
        ex.violations.push((
            "rows/initial-rows-differ-from-query-result".into(),
            json!({"template": tm.name, "sql": sql, "diff(initial rows vs query)": subs::multiset_diff(&r, &q)}),
        ));
    }
    let key = format!("subs {}", conn.id);
    ex.history.push(format!("sub {}", tm.name));
    ex.stat("subscriptions", 1);
    ex.stat(&format!("template.{}", tm.name), 1);
    ex.subs.push(Sub {
        conn,
        name: tm.name,
        kind: tm.kind,
        sql,
        ncols,
        exposed: false,
        seen_changes: 0,
        key,
        dead: false,
    });
    Ok(())
}

async fn checkpoint(ex: &mut Ex, node: &super::Node, pump: &mut Pump, single_op_unchanged: bool, constrained: bool, last_op: &str) -> Result<(), String> {
    let keys: Vec<String> = ex.subs.iter().filter(|s| !s.dead).map(|s| s.key.clone()).collect();
    pump.wait_quiet(&keys, Duration::from_secs(90)).await?;
    ex.stat("checkpoints", 1);
    let ro = node.ro().map_err(|e| e.to_string())?;
    let mut stats: Vec<(String, u64)> = vec![];
    for s in ex.subs.iter_mut().filter(|s| !s.dead) {
        let (m, max_id, _) = subs::materialised(node, s.conn.id, s.ncols)?;
        s.conn.read_until(max_id, Duration::from_secs(60)).await.map_err(|e| format!("{} ({}): {e}", s.name, s.sql))?;
        stats.push(("sub_checks".into(), 1));
        let q = subs::query_multiset(&ro, &s.sql).map_err(|e| format!("oracle query {:?}: {e}", s.sql))?;
        let mm = subs::multiset_of(&m);
        let hist: Vec<String> = ex.history.iter().rev().take(12).rev().cloned().collect();
        if s.kind == Kind::Left && constrained {
            stats.push(("left_join_checks_in_constrained_histories".into(), 1));
        }
        if mm != q {
            let sig = if s.kind == Kind::Left && s.exposed {
                "rows/left-join-result-diverges-after-change-touching-only-the-nullable-side"
            } else {
                "rows/materialised-rows-differ-from-query-result"
            };
            ex.violations.push((
                sig.into(),
                json!({"template": s.name, "sql": s.sql, "diff(materialised vs query)": subs::multiset_diff(&mm, &q), "last_operations": hist, "after": last_op, "materialised": mm.iter().take(40).collect::<Vec<_>>(), "query_result": q.iter().take(40).collect::<Vec<_>>(), "events_of_subscription": s.conn.events.iter().rev().take(30).rev().map(|e| format!("{e:?}")).collect::<Vec<_>>(), "history": ex.history.iter().take(60).collect::<Vec<_>>()}),
            ));
            // once diverged the later comparisons would repeat the same finding
            s.dead = true;
            stats.push((format!("diverged.{}.{}", s.name, if mm.len() < q.len() { "rows-missing" } else if mm.len() > q.len() { "rows-extra" } else { "rows-differ" }), 1));
            if std::env::var_os("VH_C11_DEBUG").is_some() {
                for t in ["p", "c", "g"] {
                    let rows = subs::query_multiset(&ro, &format!("SELECT * FROM {t}")).unwrap_or_default();
                    eprintln!("TABLE {t}: {rows:?}");
                }
                let rows = subs::query_multiset(&ro, r#"SELECT "table", hex(pk), cid, val, col_version, db_version, hex(site_id), cl, seq FROM crsql_changes ORDER BY 1,2,3"#).unwrap_or_default();
                for r in rows {
                    eprintln!("CHG {r}");
                }
            }
        }
        if s.conn.replay.rows != m {
            let r = subs::multiset_of(&s.conn.replay.rows);
            ex.violations.push((
                "stream/fold-of-events-differs-from-materialised-rows".into(),
                json!({"template": s.name, "sql": s.sql, "diff(fold vs materialised)": subs::multiset_diff(&r, &mm), "rows_in_fold": s.conn.replay.rows.len(), "rows_materialised": m.len(), "last_operations": hist}),
            ));
            s.dead = true;
        }
        for (sig, mut d) in std::mem::take(&mut s.conn.replay.problems) {
            d["template"] = json!(s.name);
            d["sql"] = json!(s.sql);
            d["last_operations"] = json!(hist);
            ex.violations.push((sig, d));
        }
        let now = s.conn.replay.n_changes;
        if single_op_unchanged && now > s.seen_changes {
            ex.violations.push((
                "stream/events-emitted-although-no-table-changed".into(),
                json!({"template": s.name, "sql": s.sql, "events": s.conn.events.iter().rev().take((now - s.seen_changes) as usize).map(|e| format!("{e:?}")).collect::<Vec<_>>(), "operation": last_op}),
            ));
        }
        s.seen_changes = now;
    }
    for (k, n) in stats {
        ex.stat(&k, n);
    }
    Ok(())
}

pub async fn one_execution(seed: u64) -> Result<ExecOut, String> {
    let mut rng = rand::rngs::StdRng::seed_from_u64(seed);
    let constrained = rng.random_range(0..2) == 0;
    let mk = |idx| async move {
        new_node(
            idx,
            NodeOpts {
                serve_sync: false,
                schema: Some(SUB_SCHEMA.to_string()),
                ..Default::default()
            },
        )
        .await
        .map_err(|e| e.to_string())
    };
    let mut node = mk(0).await?;
    let mut src = mk(1).await?;
    let _ = klukai_types::verif::take_log();
    let mut pump = Pump::default();
    let sc = SubsCtx::default();
    let mut ex = Ex {
        subs: vec![],
        violations: vec![],
        stats: BTreeMap::new(),
        history: vec![format!("constrained={constrained}")],
    };
    let all = ["p", "c", "g"];

    // remote versions produced by `src` and not yet (completely) delivered
    let mut pool: Vec<ChangeV1> = vec![];
    // initial data on both nodes
    for _ in 0..rng.random_range(2..6) {
        let mut info = TxInfo::default();
        let stmts: Vec<_> = (0..rng.random_range(2..6)).map(|_| subs::random_stmt(&mut rng, &all, &mut info)).collect();
        subs::local_tx(&mut node, stmts).await?;
        let mut info = TxInfo::default();
        let tables: &[&str] = if constrained { &["p"] } else { &all };
        let stmts: Vec<_> = (0..rng.random_range(1..4)).map(|_| subs::random_stmt(&mut rng, tables, &mut info)).collect();
        let (status, resp) = src.tx(stmts).await;
        if status == 200
            && let Some(v) = resp.version
        {
            // delivered at some point of the history (possibly late, possibly after later versions)
            pool.extend(subs::wait_broadcast(&mut src, v).await?);
        }
    }

    let mut tms = templates(&mut rng);
    tms.shuffle(&mut rng);
    let n_subs = rng.random_range(3..=6usize);
    let mut tag = 100 + (seed % 50) * 10;
    let mut spare: Vec<Tmpl> = vec![];
    for (i, tm) in tms.into_iter().enumerate() {
        if i < n_subs {
            tag += 1;
            new_sub(&mut ex, &node, &sc, &tm, tag).await?;
        } else {
            spare.push(tm);
        }
    }

    let n_ops = rng.random_range(10..=25);
    let mut prev_checked = true; // a checkpoint directly precedes the next operation
    for opi in 0..n_ops {
        let before = tables_digest(&*node.ro().map_err(|e| e.to_string())?, &SUB_TABLES).map_err(|e| e.to_string())?;
        let choice = rng.random_range(0..100);
        let mut info = TxInfo::default();
        let mut op_desc;
        let mut nullable_side_alone = false;
        if choice < 55 {
            // local transaction
            let mut stmts: Vec<_> = (0..rng.random_range(1..=4)).map(|_| subs::random_stmt(&mut rng, &all, &mut info)).collect();
            if constrained {
                stmts.extend(subs::parent_touches(&info));
            } else if !info.c_pids.is_empty() || !info.g_gids.is_empty() {
                nullable_side_alone = true;
            }
            let (status, v) = subs::local_tx(&mut node, stmts).await?;
            op_desc = format!("local[{}]={status}{}", info.desc.join(","), if v.is_some() { "" } else { " (no version)" });
            ex.stat("local_txs", 1);
            if status != 200 {
                ex.stat("local_txs_rolled_back", 1);
            }
        } else if choice < 90 {
            // a transaction on the other node, delivered now or later
            let tables: &[&str] = if constrained { &["p"] } else { &all };
            let stmts: Vec<_> = (0..rng.random_range(1..=4)).map(|_| subs::random_stmt(&mut rng, tables, &mut info)).collect();
            let (status, resp) = src.tx(stmts).await;
            op_desc = format!("remote-authored[{}]={status}", info.desc.join(","));
            if status == 200
                && let Some(v) = resp.version
            {
                let chunks = subs::wait_broadcast(&mut src, v).await?;
                for c in chunks {
                    // cut some changesets so that they take the buffered path
                    if rng.random_range(0..2) == 0
                        && let Some((a, b)) = rechunk(&mut rng, &c)
                    {
                        pool.push(a);
                        pool.push(b);
                    } else {
                        pool.push(c);
                    }
                }
            }
            // deliver a random part of what is pending, in random order
            pool.shuffle(&mut rng);
            let take = rng.random_range(0..=pool.len());
            let batch: Vec<ChangeV1> = pool.drain(..take).collect();
            if !batch.is_empty() {
                let partial = batch.iter().filter(|c| !c.is_complete()).count();
                ex.stat("remote_buffered", partial as u64);
                ex.stat("remote_complete", (batch.len() - partial) as u64);
                ex.stat("ingest_calls", 1);
                op_desc.push_str(&format!(" deliver{}({} partial)", batch.len(), partial));
                if !constrained {
                    nullable_side_alone = true; // unconstrained remote content
                }
                subs::deliver_and_apply(&mut node, &mut pump, batch).await?;
            }
        } else if !spare.is_empty() {
            let tm = spare.pop().unwrap();
            tag += 1;
            op_desc = format!("subscribe {}", tm.name);
            new_sub(&mut ex, &node, &sc, &tm, tag).await?;
        } else {
            op_desc = "noop".into();
        }
        if nullable_side_alone {
            for s in ex.subs.iter_mut() {
                s.exposed = true;
            }
        }
        ex.history.push(op_desc.clone());
        let last = opi + 1 == n_ops;
        if last && !pool.is_empty() {
            // deliver the rest
            let batch: Vec<ChangeV1> = pool.drain(..).collect();
            let partial = batch.iter().filter(|c| !c.is_complete()).count();
            ex.stat("remote_buffered", partial as u64);
            ex.stat("remote_complete", (batch.len() - partial) as u64);
            if !constrained {
                for s in ex.subs.iter_mut() {
                    s.exposed = true;
                }
            }
            subs::deliver_and_apply(&mut node, &mut pump, batch).await?;
            ex.history.push("deliver-rest".into());
            prev_checked = false;
        }
        if last || rng.random_range(0..10) < 6 {
            let after = tables_digest(&*node.ro().map_err(|e| e.to_string())?, &SUB_TABLES).map_err(|e| e.to_string())?;
            let unchanged = prev_checked && before == after && !op_desc.starts_with("subscribe");
            if unchanged {
                ex.stat("operations_without_table_change_checked", 1);
            }
            checkpoint(&mut ex, &node, &mut pump, unchanged, constrained, &op_desc).await?;
            prev_checked = true;
        } else {
            prev_checked = false;
        }
    }

    let mut change_events = 0;
    let mut bt = [0u64; 3];
    for s in &ex.subs {
        change_events += s.conn.replay.n_changes;
        for i in 0..3 {
            bt[i] += s.conn.replay.by_type[i];
        }
    }
    ex.stat("change_events", change_events);
    ex.stat("insert_events", bt[0]);
    ex.stat("update_events", bt[1]);
    ex.stat("delete_events", bt[2]);
    ex.stat("hook_events", pump.events_seen);
    if constrained {
        ex.stat("constrained_histories", 1);
    }
    let nontrivial = change_events > 0 && ex.stats.get("checkpoints").copied().unwrap_or(0) >= 3;
    let hash = ex.history.join(";");
    let sample = json!({"history": ex.history.iter().take(14).collect::<Vec<_>>(), "subscriptions": ex.subs.iter().map(|s| format!("{}: {} change events", s.name, s.conn.replay.n_changes)).collect::<Vec<_>>() });
    drop(ex.subs);
    drop(node.shutdown().await);
    drop(src.shutdown().await);
    Ok(ExecOut {
        violations: ex.violations,
        hash,
        nontrivial,
        stats: ex.stats,
        sample: Some(sample),
    })
}

fn run(ctx: &mut Ctx) {
    subs::run_loop(ctx, 4, 400, one_execution);
}
