//! C12 — attaching or resuming a subscription never skips or repeats a change silently.
//!
//! One real node, one subscription whose first subscriber (the "primary") records the
//! whole event stream from change id 0. While a writer commits bursts of changes,
//! other subscribers attach (`GET /v1/subscriptions/{id}` or `POST` of the same SQL)
//! from scratch, with `skip_rows`, or resuming with `from=N`, at seeded moments and
//! with seeded delays at the hook points inside `catch_up_sub` and between the
//! matcher's event emission and its commit. Every attached stream is then judged
//! against the primary stream. The client library's gap detection is driven against a
//! scripted server that sends streams with seeded anomalies.

use std::{
    collections::BTreeMap,
    sync::{
        Arc,
        atomic::{AtomicBool, AtomicU64, Ordering},
    },
    time::Duration,
};

use futures::StreamExt;
use klukai_types::{
    api::{QueryEvent, SqliteValue, Statement},
    channel::bounded,
    verif,
};
use rand::{Rng, SeedableRng};
use serde_json::{Value, json};
use uuid::Uuid;

use super::{
    NodeOpts, new_node,
    subs::{self, ExecOut, Pump, SUB_SCHEMA, SubConn, SubsCtx},
};
use crate::{
    Check,
    common::{CheckSpec, Ctx},
};

pub fn check() -> Check {
    Check {
        spec: CheckSpec {
            prop: "C12",
            level: "exploration",
            rule: "execution = one real node, one subscription (single-table or join query) with a primary subscriber recording the stream from change id 0; a writer commits 4-12 bursts (1 to 1500 changed rows per transaction, so bursts exceed the 512/1024-slot buffers) while 2-8 subscriber tasks attach 2-4 times each at seeded moments: from scratch, with skip_rows, resuming from=N for N anywhere in the log written so far, through GET by id or POST of the same SQL; seeded delays (hook points sub.catchup.start / after_read / before_cancel / before_forward / queue_recv, match.event_sent, match.before_commit) move live events before, into and after the catch-up read; after the writer ends and the matcher is quiescent (hook log) every stream still open is read up to the last change id; oracle per attached stream: snapshot rows == fold of the primary stream up to the snapshot's change id, first change id == snapshot id + 1 (or N + 1), ids +1 each, every change equal to the primary's change with that id, no duplicate, no event after a gap; a stream that ends (error event or close) is fine; plus client-library cases: scripted server streams with a seeded gap / duplicate / backward id must end in MissedChange at that event and clean streams must not; non-trivial = execution in which some subscriber attached while the writer was active and received live changes after its catch-up; distinct by hash of the schedule",
            assumptions: &[
                "resume points beyond the newest change id and pruned logs (pruning runs every 5 minutes) are outside the explored range",
                "a stream that stays open but has not delivered the last change when the watchdog fires is inconclusive",
            ],
            min_nontrivial: 10,
            required_stats: &["attachments", "attach.anew", "attach.from", "attach.skip_rows", "attached_while_writing", "live_changes_after_catch_up", "streams_judged", "changes_compared", "client.cases", "client.anomalies_reported"],
        },
        budget: (70, 900),
        workers: (12, 14),
        run,
    }
}

#[derive(Clone, Copy, Debug, PartialEq)]
enum Mode {
    Anew,
    SkipRows,
    From(u64),
    FromSkipRows(u64),
}

struct Attached {
    mode: Mode,
    via_post: bool,
    conn: SubConn,
    while_writing: bool,
    open_err: Option<String>,
}

type Fold = BTreeMap<u64, Vec<SqliteValue>>;

fn apply(fold: &mut Fold, ev: &QueryEvent) {
    use klukai_types::api::sqlite::ChangeType;
    match ev {
        QueryEvent::Row(r, cells) => {
            fold.insert(r.0, cells.clone());
        }
        QueryEvent::Change(ChangeType::Delete, r, _, _) => {
            fold.remove(&r.0);
        }
        QueryEvent::Change(_, r, cells, _) => {
            fold.insert(r.0, cells.clone());
        }
        _ => {}
    }
}

/// judge one attached stream against the primary stream
fn judge(att: &Attached, primary: &[QueryEvent], stats: &mut BTreeMap<String, u64>) -> Vec<(String, Value)> {
    let mut out: Vec<(String, Value)> = vec![];
    let mut bump = |k: &str, n: u64| *stats.entry(k.to_string()).or_insert(0) += n;
    bump("streams_judged", 1);
    // primary changes by id
    let mut by_id: BTreeMap<u64, &QueryEvent> = BTreeMap::new();
    for e in primary {
        if let QueryEvent::Change(_, _, _, id) = e {
            by_id.insert(id.0, e);
        }
    }
    let describe = |extra: Value| json!({"mode": format!("{:?}", att.mode), "via_post": att.via_post, "attached_while_writing": att.while_writing, "detail": extra, "stream_head": att.conn.events.iter().filter(|e| !matches!(e, QueryEvent::Row(..))).take(6).map(|e| format!("{e:?}")).collect::<Vec<_>>(), "stream_len": att.conn.events.len()});

    let mut expect_next: Option<u64> = match att.mode {
        Mode::From(n) | Mode::FromSkipRows(n) => Some(n + 1),
        _ => None,
    };
    let mut snapshot: Fold = Fold::new();
    let mut saw_rows = false;
    let mut gap_at: Option<(u64, u64)> = None;
    let mut after_catch_up = 0u64;
    for ev in att.conn.events.iter() {
        match ev {
            QueryEvent::Columns(_) => {}
            QueryEvent::Row(..) => {
                saw_rows = true;
                apply(&mut snapshot, ev);
            }
            QueryEvent::EndOfQuery { change_id, .. } => {
                let e = change_id.map(|c| c.0).unwrap_or(0);
                if matches!(att.mode, Mode::Anew) {
                    // consistent snapshot: the primary's fold at change id e
                    let mut f = Fold::new();
                    for pe in primary {
                        match pe {
                            QueryEvent::Change(_, _, _, id) if id.0 > e => break,
                            _ => apply(&mut f, pe),
                        }
                    }
                    if f != snapshot {
                        let a = subs::multiset_of(&snapshot);
                        let b = subs::multiset_of(&f);
                        out.push((
                            "attach/snapshot-differs-from-state-at-its-change-id".into(),
                            describe(json!({"snapshot_change_id": e, "rows_in_snapshot": snapshot.len(), "rows_in_primary_fold": f.len(), "diff(snapshot vs primary fold)": subs::multiset_diff(&a, &b)})),
                        ));
                    }
                    expect_next = Some(e + 1);
                }
            }
            QueryEvent::Change(_, _, _, id) => {
                bump("changes_compared", 1);
                if let Some((a, b)) = gap_at {
                    out.push(("attach/stream-continues-past-a-gap".into(), describe(json!({"expected": a, "got": b, "then": id.0}))));
                    gap_at = None;
                }
                match expect_next {
                    Some(x) if id.0 == x => {}
                    Some(x) if id.0 < x => {
                        out.push((
                            if matches!(att.mode, Mode::Anew) && x == id.0 + 1 && after_catch_up == 0 { "attach/change-already-contained-in-the-snapshot-sent-again" } else { "attach/duplicate-or-backward-change-id" }.into(),
                            describe(json!({"expected": x, "got": id.0})),
                        ));
                    }
                    Some(x) => {
                        gap_at = Some((x, id.0));
                    }
                    None => {}
                }
                expect_next = Some(id.0.max(expect_next.unwrap_or(0).saturating_sub(1)) + 1);
                after_catch_up += 1;
                match by_id.get(&id.0) {
                    Some(pe) if *pe == ev => {}
                    Some(pe) => out.push(("attach/change-differs-from-the-same-id-on-the-first-stream".into(), describe(json!({"id": id.0, "here": format!("{ev:?}"), "primary": format!("{pe:?}")})))),
                    None => out.push(("attach/change-id-unknown-to-the-first-stream".into(), describe(json!({"id": id.0})))),
                }
            }
            QueryEvent::Error(_) => {}
        }
    }
    if let Some((a, b)) = gap_at {
        // a gap as the very last event: the stream must not stay open and healthy
        if !att.conn.reader.done && att.conn.replay.error.is_none() {
            out.push(("attach/gap-and-the-stream-stays-open".into(), describe(json!({"expected": a, "got": b}))));
        }
    }
    if matches!(att.mode, Mode::SkipRows | Mode::FromSkipRows(_) | Mode::From(_)) && saw_rows {
        out.push(("attach/rows-sent-although-not-asked-for".into(), describe(json!(null))));
    }
    if att.while_writing {
        bump("attached_while_writing", 1);
        bump("live_changes_after_catch_up", after_catch_up);
    }
    // one per signature
    let mut seen = std::collections::BTreeSet::new();
    out.retain(|(s, _)| seen.insert(s.clone()));
    out
}

pub async fn one_execution(seed: u64) -> Result<ExecOut, String> {
    let mut rng = rand::rngs::StdRng::seed_from_u64(seed);
    let mut node = new_node(
        0,
        NodeOpts {
            serve_sync: false,
            schema: Some(SUB_SCHEMA.to_string()),
            ..Default::default()
        },
    )
    .await
    .map_err(|e| e.to_string())?;
    let _ = verif::take_log();
    verif::set_seed(seed);
    verif::clear_delays();
    let mut stats: BTreeMap<String, u64> = BTreeMap::new();
    // the broadcast channel is drained by a task of its own
    let mut rx_bcast = std::mem::replace(&mut node.rx_bcast, bounded(1, "verif_dummy_bcast").1);
    let drain = tokio::spawn(async move { while rx_bcast.recv().await.is_some() {} });

    let sc = Arc::new(SubsCtx::default());
    let join = rng.random_range(0..3) == 0;
    let sql = if join {
        format!("SELECT p.id, p.name, c.k, c.val FROM p JOIN c ON c.pid = p.id WHERE {0} = {0}", 7000 + seed % 1000)
    } else {
        format!("SELECT id, name, v FROM p WHERE {0} = {0}", 7000 + seed % 1000)
    };
    // some initial rows
    let ins = |id: i64, v: i64| Statement::WithParams("INSERT INTO p (id, grp, name, v) VALUES (?, 1, ?, ?) ON CONFLICT (id) DO UPDATE SET name = excluded.name, v = excluded.v".into(), vec![id.into(), format!("n{v}").into(), v.into()]);
    let insc = |id: i64, v: i64| Statement::WithParams("INSERT INTO c (pid, k, val, note) VALUES (?, 'a', ?, 'x') ON CONFLICT (pid, k) DO UPDATE SET val = excluded.val".into(), vec![id.into(), v.into()]);
    let mut init = vec![];
    for id in 1..=rng.random_range(0..40i64) {
        init.push(ins(id, 0));
        if join {
            init.push(insc(id, 0));
        }
    }
    if !init.is_empty() {
        node.tx(init).await;
    }
    let mut primary = subs::subscribe(&node, &sc, &sql, None, false).await?;
    primary.read_snapshot(Duration::from_secs(60)).await?;
    let sub_id = primary.id;
    let sub_key = format!("subs {sub_id}");

    // seeded delays
    let heavy = rng.random_range(0..2) == 0;
    for (label, max_us) in [
        ("sub.catchup.start", 30_000u64),
        ("sub.catchup.after_read", 40_000),
        ("sub.catchup.before_cancel", 30_000),
        ("sub.catchup.before_forward", 30_000),
        ("sub.catchup.queue_recv", 2_000),
        ("match.event_sent", if heavy { 3_000 } else { 300 }),
        ("match.before_commit", 60_000),
    ] {
        if rng.random_range(0..4) != 0 {
            verif::set_delay(label, rng.random_range(200..=1000), max_us);
        }
    }

    let known_last = Arc::new(AtomicU64::new(0));
    let writing = Arc::new(AtomicBool::new(true));
    let stop = Arc::new(AtomicBool::new(false));

    // ---- primary reader
    let primary_task = {
        let (known_last, stop) = (known_last.clone(), stop.clone());
        tokio::spawn(async move {
            while !stop.load(Ordering::SeqCst) {
                if primary.next_event(Duration::from_millis(50)).await.is_some() {
                    known_last.store(primary.replay.last_id(), Ordering::SeqCst);
                } else if primary.reader.done {
                    break;
                }
            }
            primary
        })
    };

    // ---- attachers
    let n_att = rng.random_range(2..=8usize);
    let mut att_tasks = vec![];
    for _ in 0..n_att {
        let (agent, tripwire, sc, sql) = (node.agent.clone(), node.tripwire.clone(), sc.clone(), sql.clone());
        let (known_last, writing, stop) = (known_last.clone(), writing.clone(), stop.clone());
        let rs: u64 = rng.random();
        att_tasks.push(tokio::spawn(async move {
            let mut rng = rand::rngs::StdRng::seed_from_u64(rs);
            let mut out: Vec<Attached> = vec![];
            for _ in 0..rng.random_range(2..=4) {
                tokio::time::sleep(Duration::from_millis(rng.random_range(0..400))).await;
                let known = known_last.load(Ordering::SeqCst);
                let n = if known == 0 { 0 } else { rng.random_range(known.saturating_sub(60)..=known) };
                let mode = match rng.random_range(0..10) {
                    0..=3 => Mode::Anew,
                    4 => Mode::SkipRows,
                    5..=8 => Mode::From(n),
                    _ => Mode::FromSkipRows(n),
                };
                let (from, skip) = match mode {
                    Mode::Anew => (None, false),
                    Mode::SkipRows => (None, true),
                    Mode::From(n) => (Some(n), false),
                    Mode::FromSkipRows(n) => (Some(n), true),
                };
                let via_post = rng.random_range(0..4) == 0;
                let while_writing = writing.load(Ordering::SeqCst);
                let conn = if via_post {
                    subs::subscribe_parts(&agent, &tripwire, &sc, &sql, from, skip).await
                } else {
                    subs::attach_parts(&agent, &tripwire, &sc, sub_id, from, skip).await.map_err(|(s, b)| format!("status {s}: {b}"))
                };
                match conn {
                    Ok(mut conn) => {
                        // read for a while (some attachers are slow readers)
                        let slow = rng.random_range(0..4) == 0;
                        let until = tokio::time::Instant::now() + Duration::from_millis(rng.random_range(100..1500));
                        while tokio::time::Instant::now() < until && !stop.load(Ordering::SeqCst) {
                            if conn.next_event(Duration::from_millis(30)).await.is_none() && conn.reader.done {
                                break;
                            }
                            if slow {
                                tokio::time::sleep(Duration::from_millis(2)).await;
                            }
                        }
                        out.push(Attached { mode, via_post, conn, while_writing, open_err: None });
                    }
                    Err(e) => {
                        // refused: nothing was delivered, nothing to judge
                        let dummy = SubConn::closed(sub_id);
                        out.push(Attached { mode, via_post, conn: dummy, while_writing, open_err: Some(e) });
                    }
                }
            }
            out
        }));
    }

    // ---- writer
    let n_bursts = rng.random_range(4..=12);
    let mut written_rows = 0u64;
    let mut versions_written = 0u64;
    let mut schedule = vec![];
    for b in 0..n_bursts {
        let m = *crate::common::pick(&mut rng, &[1usize, 1, 3, 3, 20, 20, 200, 1500]);
        let base = rng.random_range(1..=(if m > 100 { 200 } else { 3000 })) as i64;
        let mut stmts = Vec::with_capacity(m);
        for j in 0..m as i64 {
            if rng.random_range(0..6) == 0 && m < 100 {
                stmts.push(Statement::WithParams("DELETE FROM p WHERE id = ?".into(), vec![(base + j).into()]));
            } else {
                stmts.push(ins(base + j, b as i64 * 10_000 + j));
                if join {
                    stmts.push(insc(base + j, b as i64));
                }
            }
        }
        written_rows += m as u64;
        schedule.push(m);
        let (status, resp) = node.tx(stmts).await;
        if status != 200 {
            return Err(format!("writer transaction status {status}"));
        }
        if resp.version.is_some() {
            versions_written += 1;
        }
        tokio::time::sleep(Duration::from_millis(rng.random_range(0..120))).await;
    }
    writing.store(false, Ordering::SeqCst);

    // ---- settle: matcher quiescent, then everybody reads up to the last change id
    let mut pump = Pump::default();
    // local changes reach the matcher from broadcast_changes: give the spawned task its turn
    let mut settled = false;
    for _ in 0..600 {
        pump.pump();
        let sent = pump.matchers.get(&sub_key).map(|m| m.sent).unwrap_or(0);
        if sent >= versions_written && pump.quiet(&sub_key) {
            settled = true;
            break;
        }
        tokio::time::sleep(Duration::from_millis(100)).await;
    }
    verif::clear_delays();
    if !settled {
        stop.store(true, Ordering::SeqCst);
        return Err(format!("matcher not quiescent within the watchdog: {:?} of {versions_written} versions", pump.matchers.get(&sub_key)));
    }
    let (_, max_id, _) = subs::materialised(&node, sub_id, if join { 4 } else { 3 })?;
    // the attachers finish their own schedule, then we take the streams over
    let mut attached: Vec<Attached> = vec![];
    for t in att_tasks {
        attached.extend(t.await.map_err(|e| format!("attacher task: {e}"))?);
    }
    stop.store(true, Ordering::SeqCst);
    let mut primary = primary_task.await.map_err(|e| format!("primary task: {e}"))?;
    primary.read_until(max_id, Duration::from_secs(90)).await.map_err(|e| format!("primary stream: {e}"))?;
    let mut violations: Vec<(String, Value)> = vec![];
    for (sig, d) in std::mem::take(&mut primary.replay.problems) {
        violations.push((format!("primary-{sig}"), d));
    }
    let mut inconclusive_streams = 0u64;
    let mut stalled: Vec<String> = vec![];
    for a in attached.iter_mut() {
        *stats.entry("attachments".into()).or_insert(0) += 1;
        let k = match a.mode {
            Mode::Anew => "attach.anew",
            Mode::SkipRows => "attach.skip_rows",
            Mode::From(_) => "attach.from",
            Mode::FromSkipRows(_) => "attach.from_skip_rows",
        };
        *stats.entry(k.into()).or_insert(0) += 1;
        if a.via_post {
            *stats.entry("attach.via_post".into()).or_insert(0) += 1;
        }
        if a.open_err.is_some() {
            *stats.entry("attach.refused".into()).or_insert(0) += 1;
            continue;
        }
        // a skip_rows stream without a resume point starts "now": if it has seen no change
        // yet there is nothing it must still deliver
        let resume_point = match a.mode {
            Mode::From(n) | Mode::FromSkipRows(n) => n,
            _ => 0,
        };
        let owes_nothing = (matches!(a.mode, Mode::SkipRows) && a.conn.replay.last_change_id.is_none()) || a.conn.replay.last_id().max(resume_point) >= max_id;
        if !owes_nothing && !a.conn.reader.done && a.conn.replay.error.is_none() {
            // still open: it must be able to reach the end of the log
            if a.conn.read_until(max_id, Duration::from_secs(60)).await.is_err() && !a.conn.reader.done && a.conn.replay.error.is_none() {
                inconclusive_streams += 1;
                stalled.push(format!("{:?} post={} while_writing={} events={} last_id={} first_events={:?}", a.mode, a.via_post, a.while_writing, a.conn.events.len(), a.conn.replay.last_id(), a.conn.events.iter().filter(|e| !matches!(e, QueryEvent::Row(..))).take(3).map(|e| format!("{e:?}")).collect::<Vec<_>>()));
            }
        }
        if a.conn.reader.done || a.conn.replay.error.is_some() {
            *stats.entry("streams_ended_by_server".into()).or_insert(0) += 1;
        }
        violations.extend(judge(a, &primary.events, &mut stats));
    }
    *stats.entry("written_rows".into()).or_insert(0) += written_rows;
    *stats.entry("primary_changes".into()).or_insert(0) += primary.replay.n_changes;
    *stats.entry("hook_events".into()).or_insert(0) += pump.events_seen;
    *stats.entry("max:largest_burst".into()).or_insert(0) = *schedule.iter().max().unwrap_or(&0) as u64;
    let live = attached.iter().any(|a| a.while_writing && a.open_err.is_none() && a.conn.events.iter().any(|e| matches!(e, QueryEvent::Change(..))));
    let hash = format!("{sql}|{schedule:?}|{:?}", attached.iter().map(|a| format!("{:?}{}", a.mode, a.via_post)).collect::<Vec<_>>());
    let sample = json!({"sql": sql, "bursts": schedule, "attachments": attached.iter().take(8).map(|a| format!("{:?} post={} while_writing={} events={} ended={}", a.mode, a.via_post, a.while_writing, a.conn.events.len(), a.conn.reader.done)).collect::<Vec<_>>(), "last_change_id": max_id});
    drop(attached);
    drop(primary);
    drain.abort();
    drop(node.shutdown().await);
    if inconclusive_streams > 0 && violations.is_empty() {
        return Err(format!("{inconclusive_streams} open stream(s) did not deliver the last change id {max_id} within the watchdog: {stalled:?}"));
    }
    let mut seen = std::collections::BTreeSet::new();
    violations.retain(|(s, _)| seen.insert(s.clone()));
    Ok(ExecOut {
        violations,
        hash,
        nontrivial: live,
        stats,
        sample: Some(sample),
    })
}

// ------------------------------------------------------------------ client library

#[derive(Clone, Copy, Debug, PartialEq)]
enum Anomaly {
    None,
    Gap,
    Duplicate,
    Backward,
}

/// One scripted stream served to the real client; returns (violations, reported)
async fn client_case(seed: u64, stats: &mut BTreeMap<String, u64>) -> Result<Vec<(String, Value)>, String> {
    let mut rng = rand::rngs::StdRng::seed_from_u64(seed);
    let id = Uuid::from_u128(seed as u128 + 1);
    let skip_rows = rng.random_range(0..3) == 0;
    let from: Option<u64> = if rng.random_range(0..2) == 0 { Some(rng.random_range(0..50)) } else { None };
    let anomaly = *crate::common::pick(&mut rng, &[Anomaly::None, Anomaly::Gap, Anomaly::Gap, Anomaly::Duplicate, Anomaly::Backward]);
    let n_changes = rng.random_range(1..30u64);
    let at = rng.random_range(0..n_changes);
    // build the body
    let mut lines: Vec<String> = vec![];
    let mut wire_ids: Vec<u64> = vec![];
    let first_known: Option<u64>;
    if from.is_none() && !skip_rows {
        let e = rng.random_range(0..40u64);
        lines.push(r#"{"columns":["id"]}"#.into());
        lines.push(r#"{"row":[1,[1]]}"#.into());
        lines.push(format!(r#"{{"eoq":{{"time":0.0,"change_id":{e}}}}}"#));
        first_known = Some(e);
    } else {
        first_known = from;
    }
    let mut next = first_known.map(|x| x + 1).unwrap_or(rng.random_range(1..40));
    for i in 0..n_changes {
        if i == at {
            match anomaly {
                Anomaly::Gap => next += rng.random_range(1..5),
                Anomaly::Duplicate if next > 1 => next -= 1,
                Anomaly::Backward if next > 3 => next -= rng.random_range(2..=3),
                _ => {}
            }
        }
        wire_ids.push(next);
        lines.push(format!(r#"{{"change":["update",1,[{next}],{next}]}}"#));
        next += 1;
    }
    let body: String = lines.iter().map(|l| format!("{l}\n")).collect();
    let listener = tokio::net::TcpListener::bind("127.0.0.1:0").await.map_err(|e| e.to_string())?;
    let addr = listener.local_addr().map_err(|e| e.to_string())?;
    // the client speaks HTTP/2 with prior knowledge
    let server = tokio::spawn(async move {
        if let Ok((sock, _)) = listener.accept().await {
            let svc = hyper::service::service_fn(move |_req: hyper::Request<hyper::body::Incoming>| {
                let body = body.clone();
                async move {
                    Ok::<_, std::convert::Infallible>(
                        hyper::Response::builder()
                            .status(200)
                            .header("content-type", "application/json")
                            .header("corro-query-id", id.to_string())
                            .header("corro-query-hash", "abc")
                            .body(http_body_util::Full::new(bytes::Bytes::from(body)))
                            .unwrap(),
                    )
                }
            });
            let _ = hyper::server::conn::http2::Builder::new(hyper_util::rt::TokioExecutor::new())
                .serve_connection(hyper_util::rt::TokioIo::new(sock), svc)
                .await;
        }
    });
    let client = klukai_client::CorrosionApiClient::new(addr);
    let mut stream = client.subscription(id, skip_rows, from.map(klukai_types::api::ChangeId)).await.map_err(|e| format!("client subscribe: {e}"))?;
    *stats.entry("client.cases".into()).or_insert(0) += 1;
    let mut last: Option<u64> = first_known;
    let mut violations = vec![];
    let mut reported = false;
    let mut yielded: Vec<String> = vec![];
    loop {
        let item = match tokio::time::timeout(Duration::from_secs(20), stream.next()).await {
            Err(_) => return Err("client stream did not yield within the watchdog".into()),
            Ok(None) => break,
            Ok(Some(i)) => i,
        };
        match item {
            Ok(QueryEvent::Change(_, _, _, cid)) => {
                yielded.push(format!("change {}", cid.0));
                if let Some(l) = last
                    && cid.0 != l + 1
                {
                    violations.push((
                        "client/gap-or-repeat-yielded-without-MissedChange".into(),
                        json!({"anomaly": format!("{anomaly:?}"), "ids_on_the_wire": wire_ids, "known_before_first_change": first_known, "yielded": yielded, "last": l, "got": cid.0}),
                    ));
                    break;
                }
                last = Some(cid.0);
            }
            Ok(QueryEvent::EndOfQuery { change_id, .. }) => last = change_id.map(|c| c.0),
            Ok(_) => {}
            Err(klukai_client::sub::SubscriptionError::MissedChange { expected, got }) => {
                reported = true;
                yielded.push(format!("MissedChange {expected:?} {got:?}"));
                // must be at a real anomaly
                let real = last.is_some_and(|l| got.0 != l + 1);
                if !real {
                    violations.push(("client/MissedChange-reported-on-a-contiguous-stream".into(), json!({"ids_on_the_wire": wire_ids, "yielded": yielded})));
                }
                break;
            }
            Err(e) => {
                yielded.push(format!("error {e}"));
                break;
            }
        }
    }
    // an anomaly that the client could observe (a known predecessor exists) must have been reported
    let observable = anomaly != Anomaly::None && {
        let mut l = first_known;
        let mut obs = false;
        for w in &wire_ids {
            if let Some(x) = l
                && *w != x + 1
            {
                obs = true;
                break;
            }
            l = Some(*w);
        }
        obs
    };
    if observable {
        *stats.entry("client.anomalies_on_wire".into()).or_insert(0) += 1;
        if reported {
            *stats.entry("client.anomalies_reported".into()).or_insert(0) += 1;
        } else if violations.is_empty() {
            violations.push(("client/anomaly-on-the-wire-not-reported".into(), json!({"anomaly": format!("{anomaly:?}"), "ids_on_the_wire": wire_ids, "known_before_first_change": first_known, "yielded": yielded})));
        }
    }
    server.abort();
    Ok(violations)
}

fn run(ctx: &mut Ctx) {
    // client-library cases first (cheap), then the attach executions
    {
        let rt = tokio::runtime::Builder::new_multi_thread().worker_threads(2).enable_all().build().unwrap();
        let n = ctx.tier.pick(40u64, 2_000u64);
        let mut stats = BTreeMap::new();
        for i in 0..n {
            let seed = ctx.seed.wrapping_mul(7_000_003).wrapping_add((ctx.worker as u64) << 32).wrapping_add(i);
            match rt.block_on(client_case(seed, &mut stats)) {
                Ok(v) => {
                    for (sig, mut d) in v {
                        d["client_case_seed"] = json!(seed);
                        ctx.violation(sig, d);
                    }
                }
                Err(e) => ctx.inconclusive(format!("client case {seed}: {e}")),
            }
        }
        for (k, v) in stats {
            ctx.stat(&k, v);
        }
    }
    subs::run_loop(ctx, 6, 400, one_execution);
}
