//! C13 — subscriptions survive a clean restart and are discarded after an unclean one.
//!
//! A real node holds 1-3 subscriptions and a history of changes. The monitor then
//!  * takes crash images of the node's files (database + subscription databases) at the
//!    hook points of a subscription's life (`sub.created`, `sub.initial_committed`,
//!    `match.before_commit`, idle while running, `sub.draining`, `sub.completed`) and
//!    boots a fresh real node on every image: only an image whose subscription had
//!    finished cleanly may serve it, every other image must have dropped it;
//!  * shuts the node down the way `corrosion agent` does (tripwire, drop the
//!    subscription handles, wait for the counted tasks), optionally with transactions
//!    still arriving, restarts it on the same files and checks id, rows, change log and
//!    the next change id.

use std::{
    collections::BTreeMap,
    path::{Path, PathBuf},
    sync::{Arc, Mutex},
    time::Duration,
};

use klukai_types::{
    api::{QueryEvent, Statement},
    verif,
};
use rand::{Rng, SeedableRng, seq::SliceRandom};
use serde_json::{Value, json};
use uuid::Uuid;

use super::{
    Node, NodeOpts, new_node_in,
    subs::{self, ExecOut, Pump, SUB_SCHEMA, SubsCtx, TxInfo},
};
use crate::{
    Check,
    common::{CheckSpec, Ctx},
};

pub fn check() -> Check {
    Check {
        spec: CheckSpec {
            prop: "C13",
            level: "fault_enumeration",
            rule: "execution = one real node with 1-3 subscriptions (single-table and join queries) + a history of 4-14 transactions with logical matcher quiescence after each; crash images (copy of the database, its WAL and every subscription database) taken by hook callbacks at sub.created, sub.initial_committed, match.before_commit (n-th), sub.draining, sub.completed, by the harness while the subscription is idle, and again while the restored subscription runs in its second life; then a shutdown in the order of `corrosion agent` (tripwire, SubsManager::drop_handles, wait for counted tasks), in half of the executions with 2-6 transactions that were accepted before the shutdown began and commit while it proceeds (they queue behind a write connection the harness releases after tripping the wire; in half of those the subscription handles are dropped only after the monitor saw every late version handed to every subscription, so a divergence there cannot be the known ordering defect F23); restart on the same files: same id served, snapshot rows == query on the database, snapshot change id == newest id of the change log >= the last id seen before shutdown, resuming from an earlier id replays exactly the changes seen before, a new change gets the next id, rows == query at quiescence; every crash image is booted with the real start-up path: subscription served only if its image was taken at/after sub.completed (then rows == query), otherwise GET by id gives 404 and its directory is gone; non-trivial = execution with a clean restart of a subscription that had received changes and at least 3 unclean images booted; distinct by hash of the history",
            assumptions: &[
                "the shutdown order of the binary (command/agent.rs) is reproduced in process; OS-level signal handling is not part of the execution",
                "crash model: process death with intact files; every image is taken while no transaction is in flight (the draining/completed images come after the in-flight requests of the shutdown have finished, as in the binary, which awaits its server handles before dropping the subscription handles)",
            ],
            min_nontrivial: 10,
            required_stats: &["clean_restarts", "subscriptions_restored", "images_booted", "images.unclean_discarded", "images.completed_restored", "restart_with_concurrent_writes", "changes_before_shutdown", "resume_replays_compared"],
        },
        budget: (80, 900),
        workers: (10, 14),
        run,
    }
}

fn copy_dir(src: &Path, dst: &Path) -> std::io::Result<()> {
    std::fs::create_dir_all(dst)?;
    for e in std::fs::read_dir(src)? {
        let e = e?;
        let ft = e.file_type()?;
        let to = dst.join(e.file_name());
        if ft.is_dir() {
            copy_dir(&e.path(), &to)?;
        } else if ft.is_file() {
            std::fs::copy(e.path(), &to)?;
        }
    }
    Ok(())
}

struct Image {
    label: String,
    dir: tempfile::TempDir,
}

struct SubInfo {
    id: Uuid,
    sql: String,
    ncols: usize,
    /// change events seen before shutdown, by id
    seen: BTreeMap<u64, QueryEvent>,
    last_seen: u64,
}

const QUERIES: [&str; 4] = [
    "SELECT id, name, v FROM p WHERE {T}",
    "SELECT id, name FROM p WHERE v > 5 AND {T}",
    "SELECT p.id, p.name, c.k, c.val FROM p JOIN c ON c.pid = p.id WHERE {T}",
    "SELECT pid, k, val FROM c WHERE {T}",
];

async fn opts(schema: bool) -> NodeOpts {
    NodeOpts {
        serve_sync: false,
        schema: if schema { Some(SUB_SCHEMA.to_string()) } else { None },
        ..Default::default()
    }
}

/// the shutdown of `corrosion agent`, in process: trip the wire, let the requests that were
/// already accepted finish (the binary awaits its server handles), drop the subscription
/// handles, wait for the counted tasks
async fn graceful_shutdown(node: Node, hold: Option<klukai_types::agent::WriteConn>, in_flight: Vec<tokio::task::JoinHandle<(u16, bool)>>, wait_matched: Option<(&mut Pump, &[String])>) -> (tempfile::TempDir, u64, bool) {
    let agent = node.agent.clone();
    // feeds every subscription had been handed before the shutdown began
    let mut wait_matched = wait_matched;
    let base: Vec<u64> = match wait_matched.as_mut() {
        Some((pump, keys)) => {
            pump.pump();
            keys.iter().map(|k| pump.matchers.get(k).map(|m| m.sent).unwrap_or(0)).collect()
        }
        None => vec![],
    };
    let dir = node.shutdown().await;
    drop(hold);
    let mut ok = 0;
    let mut versions = 0u64;
    for w in in_flight {
        if let Ok((200, had_version)) = w.await {
            ok += 1;
            if had_version {
                versions += 1;
            }
        }
    }
    // optionally let every late transaction be handed to the subscriptions first (that is done
    // by a task spawned after its commit, one feed per subscription and version): then the
    // order of that task and of dropping the handles cannot be what loses a change
    let mut all_matched = false;
    if let Some((pump, keys)) = wait_matched {
        let deadline = std::time::Instant::now() + Duration::from_secs(20);
        loop {
            pump.pump();
            if keys.iter().zip(base.iter()).all(|(k, b)| pump.matchers.get(k).map(|m| m.sent).unwrap_or(0) >= b + versions) {
                all_matched = true;
                break;
            }
            if std::time::Instant::now() > deadline {
                break;
            }
            tokio::time::sleep(Duration::from_millis(5)).await;
        }
    }
    agent.subs_manager().drop_handles().await;
    drop(agent);
    klukai_types::spawn::wait_for_all_pending_handles().await;
    (dir, ok, all_matched)
}

fn sub_state(dir: &Path, id: Uuid) -> Option<String> {
    let p = dir.join("subscriptions").join(id.as_simple().to_string()).join("sub.sqlite");
    let c = rusqlite::Connection::open_with_flags(&p, rusqlite::OpenFlags::SQLITE_OPEN_READ_ONLY).ok()?;
    c.query_row("SELECT value FROM meta WHERE key = 'state'", [], |r| r.get::<_, String>(0)).ok()
}

pub async fn one_execution(seed: u64) -> Result<ExecOut, String> {
    let mut rng = rand::rngs::StdRng::seed_from_u64(seed);
    let mut stats: BTreeMap<String, u64> = BTreeMap::new();
    let mut violations: Vec<(String, Value)> = vec![];
    let mut history: Vec<String> = vec![];
    macro_rules! stat {
        ($k:expr, $n:expr) => {
            *stats.entry($k.to_string()).or_insert(0) += $n
        };
    }
    verif::clear_callbacks();
    verif::clear_delays();
    let dir = tempfile::Builder::new().prefix("vh-c13-").tempdir().map_err(|e| e.to_string())?;
    let node_path: PathBuf = dir.path().to_path_buf();
    let mut node = new_node_in(0, dir, opts(true).await).await.map_err(|e| e.to_string())?;
    let _ = verif::take_log();
    let mut pump = Pump::default();
    let sc = SubsCtx::of(&node);
    let all = ["p", "c", "g"];

    // crash images taken by hook callbacks: label -> which hit to copy at
    let images: Arc<Mutex<Vec<Image>>> = Arc::new(Mutex::new(vec![]));
    let mk_cb = |label: &'static str, at_hit: u64| {
        let images = images.clone();
        let src = node_path.clone();
        let cb: verif::Callback = Arc::new(move |_l: &str, n: u64, _p: &str| {
            if n != at_hit {
                return;
            }
            if let Ok(d) = tempfile::Builder::new().prefix("vh-c13-img-").tempdir()
                && copy_dir(&src, d.path()).is_ok()
            {
                images.lock().unwrap().push(Image { label: format!("{label}#{n}"), dir: d });
            }
        });
        verif::set_callback(label, cb);
    };
    verif::reset_counters();
    if rng.random_range(0..2) == 0 {
        mk_cb("sub.created", 1);
    }
    if rng.random_range(0..2) == 0 {
        mk_cb("sub.initial_committed", 1);
    }
    mk_cb("match.before_commit", rng.random_range(1..=4));

    // some data first
    for _ in 0..rng.random_range(1..4) {
        let mut info = TxInfo::default();
        let stmts: Vec<_> = (0..rng.random_range(2..6)).map(|_| subs::random_stmt(&mut rng, &all, &mut info)).collect();
        subs::local_tx(&mut node, stmts).await?;
    }
    // subscriptions
    let mut qs: Vec<&str> = QUERIES.to_vec();
    qs.shuffle(&mut rng);
    let n_subs = rng.random_range(1..=3usize);
    let mut subs_info: Vec<SubInfo> = vec![];
    let mut conns = vec![];
    for (i, q) in qs.into_iter().take(n_subs).enumerate() {
        let tag = 4000 + (seed % 500) * 4 + i as u64;
        let sql = q.replace("{T}", &format!("{tag} = {tag}"));
        let mut conn = subs::subscribe(&node, &sc, &sql, None, false).await?;
        conn.read_snapshot(Duration::from_secs(60)).await?;
        let ncols = conn.replay.columns.as_ref().map(|c| c.len()).ok_or("no columns")?;
        subs_info.push(SubInfo { id: conn.id, sql, ncols, seen: BTreeMap::new(), last_seen: 0 });
        conns.push(conn);
        history.push(format!("sub{i}"));
    }
    let keys: Vec<String> = subs_info.iter().map(|s| format!("subs {}", s.id)).collect();

    // history
    let n_ops = rng.random_range(4..=14);
    let idle_image_at = rng.random_range(0..n_ops);
    for opi in 0..n_ops {
        let mut info = TxInfo::default();
        let stmts: Vec<_> = (0..rng.random_range(1..=4)).map(|_| subs::random_stmt(&mut rng, &all, &mut info)).collect();
        let (status, _) = subs::local_tx(&mut node, stmts).await?;
        history.push(format!("tx[{}]={status}", info.desc.join(",")));
        pump.wait_quiet(&keys, Duration::from_secs(90)).await?;
        if opi == idle_image_at {
            // the subscription is running and idle: nothing is in flight
            let d = tempfile::Builder::new().prefix("vh-c13-img-").tempdir().map_err(|e| e.to_string())?;
            copy_dir(&node_path, d.path()).map_err(|e| e.to_string())?;
            images.lock().unwrap().push(Image { label: "running-idle".into(), dir: d });
        }
    }
    // what the subscribers saw before the shutdown
    for (s, conn) in subs_info.iter_mut().zip(conns.iter_mut()) {
        let (_, max_id, _) = subs::materialised(&node, s.id, s.ncols)?;
        conn.read_until(max_id, Duration::from_secs(60)).await?;
        for ev in &conn.events {
            if let QueryEvent::Change(_, _, _, id) = ev {
                s.seen.insert(id.0, ev.clone());
            }
        }
        s.last_seen = conn.replay.last_id();
        stat!("changes_before_shutdown", conn.replay.n_changes);
    }
    let had_changes = subs_info.iter().any(|s| s.last_seen > 0);

    // ---- shutdown, possibly with transactions still arriving
    let concurrent = rng.random_range(0..2) == 0;
    mk_cb("sub.draining", 1);
    mk_cb("sub.completed", n_subs as u64); // after the last subscription finished
    let mut writers = vec![];
    let mut hold = None;
    if concurrent {
        stat!("restart_with_concurrent_writes", 1);
        // requests accepted before the shutdown begins and committing while it proceeds:
        // they queue behind a write connection the harness holds until the wire is tripped
        hold = Some(node.agent.pool().write_priority().await.map_err(|e| e.to_string())?);
        for _ in 0..rng.random_range(2..=6) {
            let agent = node.agent.clone();
            let rs: u64 = rng.random();
            writers.push(tokio::spawn(async move {
                let mut rng = rand::rngs::StdRng::seed_from_u64(rs);
                let mut info = TxInfo::default();
                let stmts: Vec<Statement> = (0..rng.random_range(1..=3)).map(|_| subs::random_stmt(&mut rng, &["p", "c"], &mut info)).collect();
                let (status, body) = klukai_agent::api::public::api_v1_transactions(
                    axum::Extension(agent),
                    axum::extract::Query(klukai_agent::api::public::TimeoutParams { timeout: None }),
                    axum::extract::Json(stmts),
                )
                .await;
                (status.as_u16(), body.0.version.is_some())
            }));
        }
        tokio::time::sleep(Duration::from_millis(30)).await;
    }
    drop(conns);
    drop(sc);
    // in half of those the handles are dropped only after every late transaction was handed to
    // the subscriptions
    let wait_fed = concurrent && rng.random_range(0..2) == 0;
    let (dir, late_ok, all_fed) = graceful_shutdown(node, hold, writers, if wait_fed { Some((&mut pump, &keys)) } else { None }).await;
    stat!("transactions_committed_during_shutdown", late_ok);
    if wait_fed && late_ok > 0 {
        stat!(if all_fed { "shutdowns_after_every_late_transaction_was_fed" } else { "shutdowns_where_feeding_was_not_observed" }, 1);
    }
    history.push(format!("shutdown(concurrent={concurrent},late_ok={late_ok},wait_fed={wait_fed})"));
    // F23 is about a transaction that is fed to the subscriptions after their handles were
    // dropped; when every late transaction was observed to be fed before, a divergence is not it
    let late_sig = late_ok > 0 && !all_fed;
    verif::clear_callbacks();
    let states: Vec<Option<String>> = subs_info.iter().map(|s| sub_state(dir.path(), s.id)).collect();

    // ---- clean restart on the same files
    let _ = verif::take_log();
    let mut pump = Pump::default();
    let mut node = new_node_in(0, dir, opts(false).await).await.map_err(|e| format!("restart: {e}"))?;
    let sc = SubsCtx::of(&node);
    stat!("clean_restarts", 1);
    let hist: Vec<String> = history.iter().rev().take(10).rev().cloned().collect();
    let mut restored = vec![];
    for (s, st) in subs_info.iter().zip(states.iter()) {
        match subs::attach(&node, &sc, s.id, None, false).await {
            Err((status, body)) => {
                violations.push((
                    "clean/subscription-not-served-after-graceful-restart".into(),
                    json!({"sql": s.sql, "status": status, "body": body, "state_left_by_shutdown": st, "history": hist}),
                ));
            }
            Ok(mut conn) => {
                conn.read_snapshot(Duration::from_secs(60)).await.map_err(|e| format!("snapshot after restart: {e}"))?;
                stat!("subscriptions_restored", 1);
                let q = subs::query_multiset(&*node.ro().map_err(|e| e.to_string())?, &s.sql).map_err(|e| e.to_string())?;
                let r = subs::multiset_of(&conn.replay.rows);
                if q != r {
                    violations.push((
                        if late_sig { "clean/rows-after-restart-differ-from-query-after-transactions-committed-during-shutdown" } else if late_ok > 0 { "clean/rows-after-restart-differ-from-query-although-every-transaction-committed-during-shutdown-was-fed-to-the-subscription" } else { "clean/rows-after-restart-differ-from-query" }.into(),
                        json!({"sql": s.sql, "diff(rows vs query)": subs::multiset_diff(&r, &q), "transactions_committed_during_shutdown": late_ok, "every_late_transaction_fed_before_handles_dropped": all_fed, "history": hist}),
                    ));
                }
                let (_, max_id, _) = subs::materialised(&node, s.id, s.ncols)?;
                let eoq = conn.replay.eoq_change_id.unwrap_or(0);
                if eoq != max_id || max_id < s.last_seen {
                    violations.push((
                        "clean/change-log-does-not-end-with-the-last-change-before-shutdown".into(),
                        json!({"sql": s.sql, "snapshot_change_id": eoq, "newest_in_log": max_id, "last_seen_before_shutdown": s.last_seen, "history": hist}),
                    ));
                }
                // resume from an earlier point: the log replays what was seen
                if s.last_seen > 0 {
                    let from = rng.random_range(0..s.last_seen);
                    match subs::attach(&node, &sc, s.id, Some(from), false).await {
                        Ok(mut r2) => {
                            r2.read_until(max_id, Duration::from_secs(60)).await.map_err(|e| format!("resume after restart: {e}"))?;
                            let mut expect = from + 1;
                            for ev in &r2.events {
                                if let QueryEvent::Change(_, _, _, id) = ev {
                                    stat!("resume_replays_compared", 1);
                                    if id.0 != expect {
                                        violations.push(("clean/resumed-stream-after-restart-not-contiguous".into(), json!({"sql": s.sql, "expected": expect, "got": id.0, "history": hist})));
                                        break;
                                    }
                                    expect += 1;
                                    if let Some(old) = s.seen.get(&id.0)
                                        && old != ev
                                    {
                                        violations.push(("clean/change-log-after-restart-differs-from-what-was-delivered".into(), json!({"sql": s.sql, "id": id.0, "before": format!("{old:?}"), "after": format!("{ev:?}"), "history": hist})));
                                        break;
                                    }
                                }
                            }
                        }
                        Err((status, body)) => violations.push(("clean/resume-refused-after-restart".into(), json!({"sql": s.sql, "from": from, "status": status, "body": body, "history": hist}))),
                    }
                }
                restored.push((s, conn, max_id));
            }
        }
    }
    // new changes continue with the next id, rows follow the query
    if !restored.is_empty() && violations.is_empty() {
        for _ in 0..rng.random_range(1..=3) {
            let mut info = TxInfo::default();
            let stmts: Vec<_> = (0..rng.random_range(1..=4)).map(|_| subs::random_stmt(&mut rng, &all, &mut info)).collect();
            subs::local_tx(&mut node, stmts).await?;
        }
        let keys: Vec<String> = restored.iter().map(|(s, _, _)| format!("subs {}", s.id)).collect();
        pump.wait_quiet(&keys, Duration::from_secs(90)).await?;
        for (s, conn, old_max) in restored.iter_mut() {
            let (m, max_id, _) = subs::materialised(&node, s.id, s.ncols)?;
            conn.read_until(max_id, Duration::from_secs(60)).await.map_err(|e| format!("stream after restart: {e}"))?;
            for (sig, d) in std::mem::take(&mut conn.replay.problems) {
                violations.push((format!("clean/{sig}"), d));
            }
            if let Some(QueryEvent::Change(_, _, _, id)) = conn.events.iter().find(|e| matches!(e, QueryEvent::Change(..)))
                && id.0 != *old_max + 1
            {
                violations.push(("clean/first-change-after-restart-does-not-get-the-next-id".into(), json!({"sql": s.sql, "expected": *old_max + 1, "got": id.0})));
            }
            let q = subs::query_multiset(&*node.ro().map_err(|e| e.to_string())?, &s.sql).map_err(|e| e.to_string())?;
            if subs::multiset_of(&m) != q {
                violations.push(("clean/rows-differ-from-query-after-changes-following-the-restart".into(), json!({"sql": s.sql, "diff(materialised vs query)": subs::multiset_diff(&subs::multiset_of(&m), &q)})));
            }
        }
    }
    if !restored.is_empty() {
        // the restored subscriptions are running again: files copied now belong to a run that
        // did not finish, whatever the previous run had left in them
        let d = tempfile::Builder::new().prefix("vh-c13-img-").tempdir().map_err(|e| e.to_string())?;
        copy_dir(&node.conf.db.path.as_std_path().parent().unwrap().to_path_buf(), d.path()).map_err(|e| e.to_string())?;
        if std::env::var_os("VH_C13_DEBUG").is_some() {
            for s in subs_info.iter() {
                eprintln!("DEBUG second-life: sub {} live_state={:?} image_state={:?}", s.id, sub_state(node.conf.db.path.as_std_path().parent().unwrap(), s.id), sub_state(d.path(), s.id));
            }
        }
        images.lock().unwrap().push(Image { label: "second-life-running-idle".into(), dir: d });
    }
    drop(restored);
    drop(sc);
    drop(graceful_shutdown(node, None, vec![], None).await);

    // ---- every crash image is booted
    let imgs: Vec<Image> = std::mem::take(&mut *images.lock().unwrap());
    let mut unclean_booted = 0;
    for img in imgs {
        let label = img.label.clone();
        let path = img.dir.path().to_path_buf();
        let img_states: Vec<Option<String>> = subs_info.iter().map(|s| sub_state(&path, s.id)).collect();
        let _ = verif::take_log();
        let inode = new_node_in(7, img.dir, opts(false).await).await.map_err(|e| format!("boot of image {label}: {e}"))?;
        let isc = SubsCtx::of(&inode);
        stat!("images_booted", 1);
        stat!(format!("image.{}", label.split('#').next().unwrap_or("")), 1);
        for (s, st) in subs_info.iter().zip(img_states.iter()) {
            let sub_dir = path.join("subscriptions").join(s.id.as_simple().to_string());
            // images taken while the node was fully running belong to an unfinished run of every
            // subscription, whatever the files say about themselves; images taken during the
            // shutdown are copied while the subscriptions finish one after the other, so there
            // the copied file of each subscription tells whether that one had finished
            // (the n-th match.before_commit can fall into the drain of the shutdown as well)
            let during_shutdown = label.starts_with("sub.draining") || label.starts_with("sub.completed") || label.starts_with("match.before_commit");
            let clean = during_shutdown && st.as_deref() == Some("completed");
            match subs::attach(&inode, &isc, s.id, None, false).await {
                Ok(mut conn) => {
                    if !clean {
                        violations.push((
                            "unclean/subscription-served-from-files-of-an-unfinished-run".into(),
                            json!({"image": label, "sql": s.sql, "state_in_image": st, "history": hist}),
                        ));
                    } else {
                        stat!("images.completed_restored", 1);
                        conn.read_snapshot(Duration::from_secs(60)).await.map_err(|e| format!("snapshot on image {label}: {e}"))?;
                        let q = subs::query_multiset(&*inode.ro().map_err(|e| e.to_string())?, &s.sql).map_err(|e| e.to_string())?;
                        let r = subs::multiset_of(&conn.replay.rows);
                        if q != r {
                            violations.push((if late_sig { "clean/image-of-completed-subscription-differs-from-query-after-transactions-committed-during-shutdown" } else { "unclean/restored-image-rows-differ-from-query" }.into(), json!({"image": label, "sql": s.sql, "diff(rows vs query)": subs::multiset_diff(&r, &q), "history": hist})));
                        }
                    }
                }
                Err((status, _)) => {
                    if st.is_none() && !sub_dir.exists() {
                        // the subscription did not exist yet in this image
                        continue;
                    }
                    if clean {
                        violations.push(("clean/completed-subscription-not-served".into(), json!({"image": label, "sql": s.sql, "status": status})));
                    } else {
                        stat!("images.unclean_discarded", 1);
                        unclean_booted += 1;
                        if status != 404 {
                            violations.push(("unclean/discarded-subscription-not-answered-with-404".into(), json!({"image": label, "status": status})));
                        }
                        if sub_dir.exists() {
                            violations.push(("unclean/directory-of-discarded-subscription-left-behind".into(), json!({"image": label, "dir": sub_dir.display().to_string(), "state_in_image": st})));
                        }
                    }
                }
            }
        }
        drop(isc);
        drop(graceful_shutdown(inode, None, vec![], None).await);
    }

    let nontrivial = had_changes && unclean_booted >= 3 && stats.get("subscriptions_restored").copied().unwrap_or(0) > 0;
    let hash = history.join(";");
    let sample = json!({"history": history.iter().take(14).collect::<Vec<_>>(), "states_left_by_shutdown": states});
    let mut seen = std::collections::BTreeSet::new();
    violations.retain(|(s, _)| seen.insert(s.clone()));
    Ok(ExecOut {
        violations,
        hash,
        nontrivial,
        stats,
        sample: Some(sample),
    })
}

fn run(ctx: &mut Ctx) {
    subs::run_loop(ctx, 4, 300, one_execution);
}
