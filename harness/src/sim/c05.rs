//! C05 — a sync server only sends what it holds and never declares unknown versions empty.
//!
//! The server is a real node driven into a mix of applied / overwritten / cleared /
//! partially buffered / fully-buffered-unapplied / missing versions. Requests are
//! made (a) in-process through the real `handle_need` and (b) by a scripted client
//! speaking the public wire protocol over QUIC. Expectations are computed from a
//! direct read of the server's files.

use std::collections::{BTreeMap, BTreeSet};

use bytes::BytesMut;
use klukai_agent::api::peer::{encode_write_bipayload_msg, read_sync_msg, verif_exports::handle_need};
use klukai_types::{
    actor::ActorId,
    base::{CrsqlDbVersion, CrsqlSeq},
    broadcast::{BiPayload, BiPayloadV1, ChangeSource, ChangeV1, Changeset},
    change::Change,
    sync::{SyncMessage, SyncMessageV1, SyncNeedV1, SyncStateV1, SyncTraceContextV1},
};
use rand::{Rng, seq::SliceRandom};
use rangemap::RangeInclusiveSet;
use serde_json::{Value, json};
use speedy::Writable;
use tokio_util::codec::{Encoder, FramedRead, LengthDelimitedCodec};

use super::{
    c01::{Exec, Msg, rechunk},
    render_sync_state,
};
use crate::{
    Check,
    common::{CheckSpec, Ctx, chance, hash_str},
};

pub fn check() -> Check {
    Check {
        spec: CheckSpec {
            prop: "C05",
            level: "exploration",
            rule: "case = (server database state, need): the server is a real node fed the chunks of 1-2 real origins so that each (actor, version) is applied-live, applied-then-overwritten, cleared by an Empty, partially buffered (1-3 ranges), fully buffered but unapplied, missing (gap) or beyond its head; needs = full ranges straddling class boundaries and partial needs with seq ranges inside/outside/overlapping what the server has, all within the advertised heads; answered in-process by the real handle_need and over QUIC by the real serve_sync to a scripted client; oracle = per-class expectation computed from a direct read of the server's crsql_changes / buffered / seq / gap tables; non-trivial = a need touching >= 2 classes or a partial need; distinct by hash of state+need",
            assumptions: &[
                "requests stay within the advertised heads (the property's domain)",
                "versions in which two live changes share a seq (F15) are judged under their own signature",
            ],
            min_nontrivial: 200,
            required_stats: &["needs.in_process", "needs.over_quic", "class.live", "class.empty", "class.buffered", "class.gap", "answers.full_changesets", "answers.empty_changesets", "needs.partial"],
        },
        budget: (60, 900),
        workers: (12, 14),
        run,
    }
}

#[derive(Debug, Clone, PartialEq)]
struct Row {
    table: String,
    pk: Vec<u8>,
    cid: String,
    val: String,
    col_version: i64,
    seq: u64,
    cl: i64,
}

fn row_of(c: &Change) -> Row {
    Row {
        table: c.table.to_string(),
        pk: c.pk.clone(),
        cid: c.cid.to_string(),
        val: format!("{:?}", c.val),
        col_version: c.col_version,
        seq: c.seq.0,
        cl: c.cl,
    }
}

/// what the server's files say about one actor
#[derive(Default, Debug)]
struct ActorFiles {
    live: BTreeMap<u64, Vec<Row>>,     // version -> rows ordered by seq
    buffered: BTreeMap<u64, Vec<Row>>, // version -> rows ordered by seq
    seq_rows: BTreeMap<u64, Vec<(u64, u64, u64)>>, // version -> (start,end,last_seq)
    gaps: RangeInclusiveSet<u64>,
    dup_seq: BTreeSet<u64>,
}

fn read_files(conn: &rusqlite::Connection, actor: ActorId) -> rusqlite::Result<ActorFiles> {
    let mut f = ActorFiles::default();
    {
        let mut st = conn.prepare(r#"SELECT "table", pk, cid, val, col_version, db_version, seq, site_id, cl FROM crsql_changes WHERE site_id = ? ORDER BY db_version, seq"#)?;
        let rows = st.query_map([actor], klukai_types::change::row_to_change)?;
        for c in rows {
            let c = c?;
            let e = f.live.entry(c.db_version.0).or_default();
            if e.last().map(|r: &Row| r.seq == c.seq.0).unwrap_or(false) {
                f.dup_seq.insert(c.db_version.0);
            }
            e.push(row_of(&c));
        }
    }
    {
        let mut st = conn.prepare(r#"SELECT "table", pk, cid, val, col_version, db_version, seq, site_id, cl FROM __corro_buffered_changes WHERE site_id = ? ORDER BY db_version, seq"#)?;
        let rows = st.query_map([actor], klukai_types::change::row_to_change)?;
        for c in rows {
            let c = c?;
            f.buffered.entry(c.db_version.0).or_default().push(row_of(&c));
        }
    }
    {
        let mut st = conn.prepare("SELECT db_version, start_seq, end_seq, last_seq FROM __corro_seq_bookkeeping WHERE site_id = ? ORDER BY db_version, start_seq")?;
        let mut rows = st.query([actor])?;
        while let Some(r) = rows.next()? {
            f.seq_rows.entry(r.get(0)?).or_default().push((r.get(1)?, r.get(2)?, r.get(3)?));
        }
    }
    {
        let mut st = conn.prepare("SELECT start, end FROM __corro_bookkeeping_gaps WHERE actor_id = ?")?;
        let mut rows = st.query([actor])?;
        while let Some(r) = rows.next()? {
            f.gaps.insert(r.get::<_, u64>(0)?..=r.get::<_, u64>(1)?);
        }
    }
    Ok(f)
}

#[derive(Debug, Clone, Copy, PartialEq, Eq, Hash, PartialOrd, Ord)]
enum Class {
    Live,
    Buffered,
    Empty,
    Gap,
}

fn class_of(f: &ActorFiles, v: u64) -> Class {
    if f.live.contains_key(&v) {
        Class::Live
    } else if f.buffered.contains_key(&v) {
        Class::Buffered
    } else if f.gaps.contains(&v) {
        Class::Gap
    } else {
        Class::Empty
    }
}

struct Answer {
    fulls: BTreeMap<u64, Vec<(u64, u64, u64, Vec<Row>)>>, // version -> (start,end,last_seq,rows)
    empties: RangeInclusiveSet<u64>,
    other_actor: bool,
    emptyset: bool,
}

fn collect(actor: ActorId, msgs: &[ChangeV1]) -> Answer {
    let mut a = Answer {
        fulls: BTreeMap::new(),
        empties: RangeInclusiveSet::new(),
        other_actor: false,
        emptyset: false,
    };
    for m in msgs {
        if m.actor_id != actor {
            a.other_actor = true;
            continue;
        }
        match &m.changeset {
            Changeset::Full { version, changes, seqs, last_seq, .. } => {
                a.fulls.entry(version.0).or_default().push((seqs.start().0, seqs.end().0, last_seq.0, changes.iter().map(row_of).collect()));
            }
            Changeset::Empty { versions, .. } => {
                a.empties.insert(versions.start().0..=versions.end().0);
            }
            Changeset::EmptySet { .. } => a.emptyset = true,
        }
    }
    for v in a.fulls.values_mut() {
        v.sort_by_key(|x| (x.0, x.1));
    }
    a
}

/// judge the answer to one need; returns (signature, detail) on violation
fn judge(f: &ActorFiles, head: u64, need: &SyncNeedV1, ans: &Answer, stats: &mut BTreeMap<String, u64>) -> Option<(String, Value)> {
    let bump = |stats: &mut BTreeMap<String, u64>, k: &str| *stats.entry(k.to_string()).or_insert(0) += 1;
    if ans.other_actor {
        return Some(("answer/changeset-for-an-actor-not-asked-for".into(), json!({})));
    }
    let (versions, want_seqs): (Vec<u64>, Option<RangeInclusiveSet<u64>>) = match need {
        SyncNeedV1::Full { versions } => ((versions.start().0..=versions.end().0).collect(), None),
        SyncNeedV1::Partial { version, seqs } => {
            let mut s = RangeInclusiveSet::new();
            for r in seqs {
                s.insert(r.start().0..=r.end().0);
            }
            (vec![version.0], Some(s))
        }
        SyncNeedV1::Empty { .. } => (vec![], None),
    };
    // nothing outside the requested versions
    for v in ans.fulls.keys() {
        if !versions.contains(v) {
            return Some(("answer/changeset-for-version-not-requested".into(), json!({"version": v})));
        }
    }
    for r in ans.empties.iter() {
        for v in *r.start()..=*r.end() {
            if !versions.contains(&v) {
                return Some(("answer/empty-for-version-not-requested".into(), json!({"version": v})));
            }
        }
    }
    for v in versions {
        if v > head {
            continue;
        }
        let class = class_of(f, v);
        bump(stats, match class {
            Class::Live => "class.live",
            Class::Buffered => "class.buffered",
            Class::Empty => "class.empty",
            Class::Gap => "class.gap",
        });
        let fulls = ans.fulls.get(&v).cloned().unwrap_or_default();
        let declared_empty = ans.empties.contains(&v);
        // every change inside its changeset's range
        for (s, e, _, rows) in fulls.iter() {
            if rows.iter().any(|r| r.seq < *s || r.seq > *e) {
                return Some(("answer/change-outside-its-changeset-range".into(), json!({"version": v, "range": [s, e]})));
            }
        }
        match class {
            Class::Gap => {
                if declared_empty {
                    return Some(("answer/needed-version-declared-empty".into(), json!({"version": v})));
                }
                if !fulls.is_empty() {
                    return Some(("answer/changes-sent-for-version-not-held".into(), json!({"version": v})));
                }
            }
            Class::Empty => {
                if !fulls.is_empty() {
                    return Some(("answer/changes-sent-for-version-with-no-live-changes".into(), json!({"version": v})));
                }
                if !declared_empty {
                    return Some(("answer/held-version-without-live-changes-not-declared-empty".into(), json!({"version": v})));
                }
            }
            Class::Live => {
                if declared_empty {
                    return Some(("answer/live-version-declared-empty".into(), json!({"version": v})));
                }
                let live = f.live.get(&v).unwrap();
                let max_seq = live.iter().map(|r| r.seq).max().unwrap_or(0);
                let dup = f.dup_seq.contains(&v);
                match &want_seqs {
                    None => {
                        // tile 0..=max_seq, rows == live rows
                        let mut next = 0u64;
                        let mut rows: Vec<Row> = vec![];
                        for (s, e, last, r) in fulls.iter() {
                            if *s != next {
                                return Some(("answer/live-version-chunks-do-not-tile".into(), json!({"version": v, "expected_start": next, "got_start": s, "chunks": fulls.iter().map(|x| [x.0, x.1]).collect::<Vec<_>>()})));
                            }
                            if *last != max_seq {
                                return Some(("answer/last_seq-differs-from-highest-live-seq".into(), json!({"version": v, "last_seq": last, "highest_live_seq": max_seq})));
                            }
                            next = e + 1;
                            rows.extend(r.iter().cloned());
                        }
                        if fulls.is_empty() || next != max_seq + 1 {
                            return Some(("answer/live-version-chunks-do-not-tile".into(), json!({"version": v, "covered_to": next, "highest_live_seq": max_seq, "chunks": fulls.iter().map(|x| [x.0, x.1]).collect::<Vec<_>>()})));
                        }
                        if &rows != live {
                            return Some((
                                if dup { "answer/live-change-sharing-a-seq-not-sent" } else { "answer/changes-differ-from-live-rows" }.into(),
                                json!({"version": v, "sent": rows.len(), "live": live.len(), "sent_seqs": rows.iter().map(|r| r.seq).collect::<Vec<_>>(), "live_seqs": live.iter().map(|r| r.seq).collect::<Vec<_>>()}),
                            ));
                        }
                    }
                    Some(want) => {
                        // each requested range: chunks tile it, rows == live rows inside
                        let mut sent_rows: Vec<Row> = vec![];
                        let mut covered = RangeInclusiveSet::new();
                        for (s, e, _, r) in fulls.iter() {
                            covered.insert(*s..=*e);
                            sent_rows.extend(r.iter().cloned());
                        }
                        let want_rows: Vec<Row> = live.iter().filter(|r| want.contains(&r.seq)).cloned().collect();
                        for w in want.iter() {
                            if covered.gaps(w).next().is_some() {
                                return Some(("answer/partial-need-on-live-version-not-covered".into(), json!({"version": v, "requested": [w.start(), w.end()], "covered": format!("{covered:?}")})));
                            }
                        }
                        for c in covered.iter() {
                            if want.gaps(c).next().is_some() {
                                return Some(("answer/partial-need-answered-beyond-requested-ranges".into(), json!({"version": v, "sent": [c.start(), c.end()]})));
                            }
                        }
                        sent_rows.sort_by_key(|r| r.seq);
                        if sent_rows != want_rows {
                            return Some((
                                if dup { "answer/live-change-sharing-a-seq-not-sent" } else { "answer/changes-differ-from-live-rows" }.into(),
                                json!({"version": v, "sent_seqs": sent_rows.iter().map(|r| r.seq).collect::<Vec<_>>(), "live_seqs_in_request": want_rows.iter().map(|r| r.seq).collect::<Vec<_>>()}),
                            ));
                        }
                    }
                }
            }
            Class::Buffered => {
                if declared_empty {
                    return Some(("answer/partially-held-version-declared-empty".into(), json!({"version": v})));
                }
                let buf = f.buffered.get(&v).unwrap();
                let ranges = f.seq_rows.get(&v).cloned().unwrap_or_default();
                let mut expect = RangeInclusiveSet::new();
                for (s, e, _) in ranges.iter() {
                    expect.insert(*s..=*e);
                }
                if let Some(want) = &want_seqs {
                    // intersection of buffered ranges and requested ranges
                    let mut inter = RangeInclusiveSet::new();
                    for w in want.iter() {
                        for o in expect.overlapping(w) {
                            inter.insert((*w.start()).max(*o.start())..=(*w.end()).min(*o.end()));
                        }
                    }
                    expect = inter;
                }
                let mut covered = RangeInclusiveSet::new();
                let mut sent_rows: Vec<Row> = vec![];
                for (s, e, last, r) in fulls.iter() {
                    covered.insert(*s..=*e);
                    sent_rows.extend(r.iter().cloned());
                    if let Some((_, _, l)) = ranges.first()
                        && last != l
                    {
                        return Some(("answer/buffered-version-last_seq-differs-from-recorded".into(), json!({"version": v, "sent": last, "recorded": l})));
                    }
                }
                if covered != expect {
                    return Some((
                        "answer/partially-buffered-version-not-answered-with-exactly-the-buffered-ranges".into(),
                        json!({"version": v, "sent_ranges": format!("{covered:?}"), "buffered_ranges": format!("{expect:?}")}),
                    ));
                }
                sent_rows.sort_by_key(|r| r.seq);
                let want_rows: Vec<Row> = buf.iter().filter(|r| expect.contains(&r.seq)).cloned().collect();
                if sent_rows != want_rows {
                    return Some(("answer/changes-differ-from-buffered-rows".into(), json!({"version": v, "sent": sent_rows.len(), "buffered_in_range": want_rows.len()})));
                }
            }
        }
    }
    None
}

fn gen_need(rng: &mut impl Rng, f: &ActorFiles, head: u64) -> SyncNeedV1 {
    if chance(rng, 400) {
        // partial need on some version, ranges inside / outside / overlapping
        let v = rng.random_range(1..=head);
        let hi = f
            .live
            .get(&v)
            .map(|r| r.iter().map(|x| x.seq).max().unwrap_or(0))
            .or_else(|| f.seq_rows.get(&v).and_then(|r| r.first().map(|x| x.2)))
            .unwrap_or(3)
            + 2;
        let n = rng.random_range(1..=3);
        let mut set = RangeInclusiveSet::new();
        for _ in 0..n {
            let a = rng.random_range(0..=hi);
            let b = (a + rng.random_range(0..=hi / 2 + 1)).min(hi + 1);
            set.insert(a..=b);
        }
        SyncNeedV1::Partial {
            version: CrsqlDbVersion(v),
            seqs: set.iter().map(|r| CrsqlSeq(*r.start())..=CrsqlSeq(*r.end())).collect(),
        }
    } else {
        let a = rng.random_range(1..=head);
        let b = (a + rng.random_range(0..=head)).min(head);
        SyncNeedV1::Full {
            versions: CrsqlDbVersion(a)..=CrsqlDbVersion(b),
        }
    }
}

fn need_brief(n: &SyncNeedV1) -> String {
    match n {
        SyncNeedV1::Full { versions } => format!("full[{}..={}]", versions.start().0, versions.end().0),
        SyncNeedV1::Partial { version, seqs } => format!("partial v{} {:?}", version.0, seqs.iter().map(|r| (r.start().0, r.end().0)).collect::<Vec<_>>()),
        SyncNeedV1::Empty { .. } => "empty".into(),
    }
}

async fn ask_in_process(node: &super::Node, actor: ActorId, need: SyncNeedV1) -> Result<Vec<ChangeV1>, String> {
    let (tx, mut rx) = tokio::sync::mpsc::channel::<SyncMessage>(100_000);
    let mut conn = node.agent.pool().read().await.map_err(|e| e.to_string())?;
    let res = tokio::task::block_in_place(|| handle_need(&mut conn, actor, need, &tx));
    drop(tx);
    res.map_err(|e| format!("handle_need: {e}"))?;
    let mut out = vec![];
    while let Some(m) = rx.recv().await {
        if let SyncMessage::V1(SyncMessageV1::Changeset(c)) = m {
            out.push(c);
        }
    }
    Ok(out)
}

/// scripted client over the real wire protocol
async fn ask_over_quic(client: &super::Node, server: &super::Node, reqs: Vec<(ActorId, Vec<SyncNeedV1>)>) -> Result<(SyncStateV1, Vec<ChangeV1>), String> {
    let (mut tx, rx) = client.transport.open_bi(server.gossip_addr).await.map_err(|e| e.to_string())?;
    let mut read = FramedRead::new(rx, LengthDelimitedCodec::builder().max_frame_length(100 * 1024 * 1024).new_codec());
    let mut codec = LengthDelimitedCodec::builder().max_frame_length(100 * 1024 * 1024).new_codec();
    let mut send_buf = BytesMut::new();
    let mut encode_buf = BytesMut::new();
    encode_write_bipayload_msg(
        &mut codec,
        &mut encode_buf,
        &mut send_buf,
        BiPayload::V1 {
            data: BiPayloadV1::SyncStart {
                actor_id: client.actor(),
                trace_ctx: SyncTraceContextV1::default(),
            },
            cluster_id: client.agent.cluster_id(),
        },
        &mut tx,
    )
    .await
    .map_err(|e| e.to_string())?;
    let mut send = |msg: SyncMessage, buf: &mut BytesMut| -> Result<(), String> {
        let bytes = msg.write_to_vec().map_err(|e| e.to_string())?;
        codec.encode(bytes::Bytes::from(bytes), buf).map_err(|e| e.to_string())
    };
    let mut buf = BytesMut::new();
    send(SyncMessage::V1(SyncMessageV1::Clock(client.agent.clock().new_timestamp().into())), &mut buf)?;
    tx.write_all(&buf).await.map_err(|e| e.to_string())?;
    buf.clear();
    let state = match tokio::time::timeout(std::time::Duration::from_secs(20), read_sync_msg(&mut read)).await {
        Ok(Ok(Some(SyncMessage::V1(SyncMessageV1::State(s))))) => s,
        other => return Err(format!("expected state, got {other:?}")),
    };
    match tokio::time::timeout(std::time::Duration::from_secs(20), read_sync_msg(&mut read)).await {
        Ok(Ok(Some(SyncMessage::V1(SyncMessageV1::Clock(_))))) => {}
        other => return Err(format!("expected clock, got {other:?}")),
    }
    for r in reqs {
        send(SyncMessage::V1(SyncMessageV1::Request(vec![r])), &mut buf)?;
    }
    tx.write_all(&buf).await.map_err(|e| e.to_string())?;
    tx.finish().map_err(|e| e.to_string())?;
    let mut out = vec![];
    loop {
        match tokio::time::timeout(std::time::Duration::from_secs(60), read_sync_msg(&mut read)).await {
            Ok(Ok(Some(SyncMessage::V1(SyncMessageV1::Changeset(c))))) => out.push(c),
            Ok(Ok(Some(_))) => {}
            Ok(Ok(None)) => break,
            Ok(Err(e)) => return Err(format!("read: {e}")),
            Err(_) => return Err("timeout reading sync answers".into()),
        }
    }
    Ok((state, out))
}

pub async fn one_execution(seed: u64, stats: &mut BTreeMap<String, u64>, over_quic: bool) -> Result<(Vec<(String, Value)>, Vec<(u64, bool)>), String> {
    use rand::SeedableRng;
    let mut rng = rand::rngs::StdRng::seed_from_u64(seed);
    let n_orig = rng.random_range(1..=2usize);
    let n = n_orig + 1;
    let mut ex = Exec::new(n).await.map_err(|e| format!("setup: {e}"))?;
    let s = n - 1; // server
    let mut violations = vec![];
    let mut cases: Vec<(u64, bool)> = vec![];

    // origins produce versions, incl. overwrites of earlier cells (=> versions with no live change)
    for o in 0..n_orig {
        for _ in 0..rng.random_range(4..=12) {
            ex.do_tx(o, &mut rng, true).await?;
        }
    }
    let mut inbox: Vec<Msg> = std::mem::take(&mut ex.inflight[s]);
    for q in ex.inflight.iter_mut() {
        q.clear();
    }
    // drive the server into a mixed state
    let mut extra = vec![];
    inbox.retain_mut(|m| {
        if chance(&mut rng, 200)
            && let Some((a, b)) = rechunk(&mut rng, &m.change)
        {
            // keep one half only or both
            if chance(&mut rng, 500) {
                extra.push(Msg { change: a, src: m.src });
            } else {
                extra.push(Msg { change: a, src: m.src });
                extra.push(Msg { change: b, src: m.src });
            }
            return false;
        }
        !chance(&mut rng, 120) // omitted => gap
    });
    inbox.extend(extra);
    // a few versions cleared by an Empty instead of delivered
    for a in ex.acked.iter() {
        if chance(&mut rng, 60) {
            let actor = ex.nodes[a.node].actor();
            inbox.retain(|m| !(m.change.actor_id == actor && m.change.versions().contains(&CrsqlDbVersion(a.version))));
            inbox.push(Msg {
                change: ChangeV1 {
                    actor_id: actor,
                    changeset: Changeset::Empty {
                        versions: CrsqlDbVersion(a.version)..=CrsqlDbVersion(a.version),
                        ts: None,
                    },
                },
                src: ChangeSource::Sync,
            });
        }
    }
    inbox.shuffle(&mut rng);
    let apply_some = chance(&mut rng, 700);
    while !inbox.is_empty() {
        let k = rng.random_range(1..=6usize).min(inbox.len());
        let batch: Vec<Msg> = inbox.drain(..k).collect();
        ex.deliver(s, batch).await?;
        if apply_some && chance(&mut rng, 400) {
            ex.apply(s).await?;
        }
        if chance(&mut rng, 200) {
            ex.clear(s).await?;
        }
    }
    // (when !apply_some, completely buffered versions stay unapplied)

    let state = ex.nodes[s].sync_state().await;
    let conn = ex.nodes[s].ro().map_err(|e| e.to_string())?;
    let actors: Vec<ActorId> = (0..n_orig).map(|i| ex.nodes[i].actor()).collect();
    let n_needs = if over_quic { 6 } else { 40 };
    for actor in actors.iter() {
        let Some(head) = state.heads.get(actor).map(|v| v.0) else { continue };
        let files = read_files(&conn, *actor).map_err(|e| e.to_string())?;
        let mut needs: Vec<SyncNeedV1> = (0..n_needs).map(|_| gen_need(&mut rng, &files, head)).collect();
        // always: everything, and each single version
        needs.push(SyncNeedV1::Full {
            versions: CrsqlDbVersion(1)..=CrsqlDbVersion(head),
        });
        for need in needs {
            let brief = need_brief(&need);
            let answer = if over_quic {
                *stats.entry("needs.over_quic".into()).or_insert(0) += 1;
                match ask_over_quic(&ex.nodes[0], &ex.nodes[s], vec![(*actor, vec![need.clone()])]).await {
                    Ok((st, a)) => {
                        if super::canon_sync_state(&st) != super::canon_sync_state(&state) {
                            violations.push(("session/advertised-state-differs-from-generate_sync".into(), json!({"got": render_sync_state(&st), "want": render_sync_state(&state)})));
                        }
                        a
                    }
                    Err(e) => return Err(format!("scripted client: {e}")),
                }
            } else {
                *stats.entry("needs.in_process".into()).or_insert(0) += 1;
                ask_in_process(&ex.nodes[s], *actor, need.clone()).await?
            };
            if matches!(need, SyncNeedV1::Partial { .. }) {
                *stats.entry("needs.partial".into()).or_insert(0) += 1;
            }
            let ans = collect(*actor, &answer);
            *stats.entry("answers.full_changesets".into()).or_insert(0) += ans.fulls.values().map(|v| v.len() as u64).sum::<u64>();
            *stats.entry("answers.empty_changesets".into()).or_insert(0) += ans.empties.iter().count() as u64;
            if ans.emptyset {
                violations.push(("answer/emptyset-sent".into(), json!({"need": brief})));
            }
            let mut classes = BTreeSet::new();
            if let SyncNeedV1::Full { versions } = &need {
                for v in versions.start().0..=versions.end().0 {
                    classes.insert(class_of(&files, v));
                }
            }
            let nontrivial = classes.len() >= 2 || matches!(need, SyncNeedV1::Partial { .. });
            cases.push((hash_str(&format!("{}|{brief}|{:?}", render_sync_state(&state), files.seq_rows)), nontrivial));
            if let Some((sig, mut d)) = judge(&files, head, &need, &ans, stats) {
                d["need"] = json!(brief);
                d["actor"] = json!(actor.to_string());
                d["over_quic"] = json!(over_quic);
                d["server_state"] = render_sync_state(&state);
                d["server_seq_rows"] = json!(format!("{:?}", files.seq_rows));
                d["server_gaps"] = json!(format!("{:?}", files.gaps));
                d["answer"] = json!(answer.iter().map(super::changeset_brief).collect::<Vec<_>>());
                d["log"] = json!(ex.log);
                violations.push((sig, d));
                if violations.len() > 3 {
                    break;
                }
            }
        }
    }
    drop(conn);
    let Exec { nodes, reference, .. } = ex;
    for nd in nodes {
        drop(nd.shutdown().await);
    }
    drop(reference.shutdown().await);
    Ok((violations, cases))
}

fn run(ctx: &mut Ctx) {
    std::panic::set_hook(Box::new(|_| {}));
    let rt = tokio::runtime::Builder::new_multi_thread().worker_threads(3).enable_all().build().unwrap();
    klukai_types::verif::set_record(true);
    let target = ctx.tier.pick(400u64, 100_000u64);
    let only: Option<u64> = ctx.extra.iter().position(|a| a == "--exec-seed").and_then(|p| ctx.extra.get(p + 1)).and_then(|s| s.parse().ok());
    let mut i = 0u64;
    while i < target && ctx.time_left() {
        i += 1;
        let mut seed = ctx.seed.wrapping_mul(1_000_003).wrapping_add((ctx.worker as u64) << 40).wrapping_add(i);
        if let Some(o) = only {
            if i > 1 || ctx.worker != 0 {
                break;
            }
            seed = o;
        }
        let over_quic = seed % 4 == 0;
        let mut stats = BTreeMap::new();
        let res = rt.block_on(async { tokio::time::timeout(std::time::Duration::from_secs(300), one_execution(seed, &mut stats, over_quic)).await });
        for (k, v) in stats {
            ctx.stat(&k, v);
        }
        match res {
            Err(_) => ctx.inconclusive(format!("execution seed {seed} exceeded the 300s watchdog")),
            Ok(Err(e)) => ctx.inconclusive(format!("execution seed {seed}: {e}")),
            Ok(Ok((violations, cases))) => {
                ctx.stat("server_states", 1);
                let (n, nt_n) = (cases.len(), cases.iter().filter(|c| c.1).count());
                for (h, nt) in cases {
                    ctx.exec(h, nt);
                }
                if nt_n > 0 {
                    ctx.sample(|| json!({"exec_seed": seed, "answers_over_the_wire_protocol": over_quic, "needs_asked_and_judged": n, "of_them_about_partial_cleared_or_unknown_versions": nt_n}));
                }
                for (sig, mut d) in violations {
                    d["exec_seed"] = json!(seed);
                    ctx.violation(sig, d);
                }
            }
        }
    }
}
