//! E1 SimCluster — message-level cluster simulator over the real pipeline.
//!
//! Nodes are created with the real `setup()`; the harness owns every channel end
//! `setup()` hands out, so it is the gossip network and the scheduler.

use std::{
    collections::{BTreeMap, BTreeSet},
    net::SocketAddr,
    ops::RangeInclusive,
    sync::Arc,
    time::{Duration, Instant},
};

use axum::Extension;
use klukai_agent::{
    agent::{
        AgentOptions, process_multiple_changes, setup,
        util::{clear_buffered_meta_loop, process_fully_buffered_changes},
        verif_exports::spawn_gossipserver_handler,
    },
    api::{
        peer::parallel_sync,
        public::{TimeoutParams, api_v1_db_schema, api_v1_transactions},
    },
    transport::Transport,
};
use klukai_types::{
    actor::ActorId,
    agent::{Agent, Bookie},
    api::{ExecResponse, Statement},
    base::{CrsqlDbVersion, CrsqlSeq},
    broadcast::{BroadcastInput, BroadcastV1, ChangeSource, ChangeV1, Changeset},
    change::Change,
    channel::{CorroReceiver, CorroSender, bounded},
    config::Config,
    sync::{SyncStateV1, generate_sync},
    tripwire::Tripwire,
    verif,
};
use rangemap::RangeInclusiveSet;
use serde_json::{Value, json};
use tokio::sync::mpsc;

pub mod c01;
pub mod c02;
pub mod c03;
pub mod c05;
pub mod c06;
pub mod c07;
pub mod c10;
pub mod c11;
pub mod c12;
pub mod c13;
pub mod c14;
pub mod c16;
pub mod c19;
pub mod c20;
pub mod subs;
pub mod work;

pub const SCHEMA: &str = r#"
CREATE TABLE t1 (id INTEGER NOT NULL PRIMARY KEY, a TEXT NOT NULL DEFAULT '', b INTEGER NOT NULL DEFAULT 0, c TEXT);
CREATE TABLE t2 (k1 BLOB NOT NULL, k2 TEXT NOT NULL, v TEXT, n INTEGER NOT NULL DEFAULT 0, PRIMARY KEY (k1, k2));
CREATE TABLE t3 (id INTEGER NOT NULL PRIMARY KEY, tag TEXT NOT NULL DEFAULT '', payload TEXT NOT NULL DEFAULT '');
"#;

pub const TABLES: [&str; 3] = ["t1", "t2", "t3"];

pub struct Node {
    pub idx: usize,
    pub agent: Agent,
    pub bookie: Bookie,
    pub dir: tempfile::TempDir,
    pub transport: Transport,
    pub gossip_addr: SocketAddr,
    pub rx_bcast: CorroReceiver<BroadcastInput>,
    pub rx_apply: CorroReceiver<(ActorId, CrsqlDbVersion)>,
    pub rx_clear_buf: CorroReceiver<(ActorId, RangeInclusive<CrsqlDbVersion>)>,
    pub rx_changes: CorroReceiver<(ChangeV1, ChangeSource)>,
    /// private channel feeding the real clear_buffered_meta_loop
    pub clear_tx: CorroSender<(ActorId, RangeInclusive<CrsqlDbVersion>)>,
    pub clear_forwarded: u64,
    /// clear requests emitted by the agent, not yet handed to the clear loop
    pub pending_clears: Vec<(ActorId, RangeInclusive<CrsqlDbVersion>)>,
    pub tripwire_tx: mpsc::Sender<()>,
    pub tripwire: Tripwire,
    /// the caches the API router would use (restored subscriptions live in the first one)
    pub subs_cache: klukai_agent::api::public::pubsub::SharedMatcherBroadcastCache,
    pub upd_cache: klukai_agent::api::public::update::SharedUpdateBroadcastCache,
    // kept alive so senders inside the agent do not error
    _keep: (
        Option<CorroReceiver<klukai_types::broadcast::FocaInput>>,
        tokio::sync::mpsc::Receiver<(SocketAddr, Duration)>,
        Vec<tokio::net::TcpListener>,
    ),
    pub conf: Config,
}

pub struct NodeOpts {
    pub serve_sync: bool,
    pub schema: Option<String>,
    pub perf: Option<Box<dyn FnOnce(&mut klukai_types::config::PerfConfig) + Send>>,
    pub cluster_id: Option<u16>,
    /// run the real `handle_changes` loop on the node's changes channel
    pub run_handle_changes: bool,
    /// run the real broadcast/SWIM `runtime_loop` on the node's broadcast channel
    pub run_broadcast: bool,
}

impl Default for NodeOpts {
    fn default() -> Self {
        Self {
            serve_sync: true,
            schema: Some(SCHEMA.to_string()),
            perf: None,
            cluster_id: None,
            run_handle_changes: false,
            run_broadcast: false,
        }
    }
}

pub async fn new_node(idx: usize, opts: NodeOpts) -> eyre::Result<Node> {
    let dir = tempfile::Builder::new().prefix("vh-node-").tempdir()?;
    new_node_in(idx, dir, opts).await
}

pub async fn new_node_in(idx: usize, dir: tempfile::TempDir, opts: NodeOpts) -> eyre::Result<Node> {
    let mut conf = Config::builder()
        .db_path(dir.path().join("corrosion.db").display().to_string())
        .gossip_addr("127.0.0.1:0".parse()?)
        .api_addr("127.0.0.1:0".parse()?)
        .admin_path(dir.path().join("admin.sock").display().to_string())
        .build()?;
    if let Some(f) = opts.perf {
        f(&mut conf.perf);
    }
    if let Some(cid) = opts.cluster_id {
        // the cluster id is read from __corro_state at setup: pre-create it
        let conn = rusqlite::Connection::open(&conf.db.path)?;
        conn.execute_batch("PRAGMA auto_vacuum = INCREMENTAL; CREATE TABLE IF NOT EXISTS __corro_state (key TEXT NOT NULL PRIMARY KEY, value);")?;
        conn.execute("INSERT OR REPLACE INTO __corro_state (key, value) VALUES ('cluster_id', ?)", [cid])?;
    }
    let (tripwire, tripwire_worker, tripwire_tx) = Tripwire::new_simple();
    tokio::spawn(tripwire_worker);
    let (agent, aopts) = setup(conf.clone(), tripwire.clone()).await?;
    let AgentOptions {
        lock_registry,
        gossip_server_endpoint,
        transport,
        api_listeners,
        rx_bcast,
        rx_apply,
        rx_clear_buf,
        rx_changes,
        rx_foca,
        rtt_rx,
        subs_bcast_cache,
        updates_bcast_cache,
        ..
    } = aopts;

    let bookie = Bookie::new_with_registry(Default::default(), lock_registry);
    {
        let mut w = bookie.write::<&str, _>("init", None).await;
        w.insert(agent.actor_id(), agent.booked().clone());
    }
    let gossip_addr = gossip_server_endpoint.local_addr()?;
    if opts.serve_sync {
        spawn_gossipserver_handler(&agent, &bookie, &tripwire, gossip_server_endpoint);
    }

    let rx_changes = if opts.run_handle_changes {
        tokio::spawn(klukai_agent::agent::verif_exports::handle_changes(
            agent.clone(),
            bookie.clone(),
            rx_changes,
            tripwire.clone(),
        ));
        bounded(1, "verif_dummy_changes").1
    } else {
        rx_changes
    };

    let (rx_bcast, rx_foca) = if opts.run_broadcast {
        let (to_send_tx, mut to_send_rx) = bounded(1024, "verif_to_send");
        let (notifications_tx, mut notifications_rx) = bounded(1024, "verif_notifications");
        klukai_agent::broadcast::runtime_loop(agent.actor(None), agent.clone(), transport.clone(), rx_foca, rx_bcast, to_send_tx, notifications_tx, tripwire.clone());
        // SWIM packets and notifications are not delivered anywhere: the member table is
        // whatever the harness puts into it
        tokio::spawn(async move { while to_send_rx.recv().await.is_some() {} });
        tokio::spawn(async move { while notifications_rx.recv().await.is_some() {} });
        (bounded(1, "verif_dummy_bcast").1, None)
    } else {
        (rx_bcast, Some(rx_foca))
    };

    let (clear_tx, clear_rx) = bounded(1024, "verif_clear");
    tokio::spawn(clear_buffered_meta_loop(agent.clone(), clear_rx));

    if let Some(schema) = opts.schema {
        let (status, body) = api_v1_db_schema(Extension(agent.clone()), axum::Json(vec![schema])).await;
        if status != axum::http::StatusCode::OK {
            eyre::bail!("schema not applied: {status} {:?}", body.0);
        }
    }

    Ok(Node {
        idx,
        agent,
        bookie,
        dir,
        transport,
        gossip_addr,
        rx_bcast,
        rx_apply,
        rx_clear_buf,
        rx_changes,
        clear_tx,
        clear_forwarded: 0,
        pending_clears: vec![],
        tripwire_tx,
        tripwire,
        subs_cache: subs_bcast_cache,
        upd_cache: updates_bcast_cache,
        _keep: (rx_foca, rtt_rx, api_listeners),
        conf,
    })
}

impl Node {
    pub fn actor(&self) -> ActorId {
        self.agent.actor_id()
    }

    pub async fn shutdown(self) -> tempfile::TempDir {
        let _ = self.tripwire_tx.send(()).await;
        self.dir
    }

    /// run a transaction through the real handler
    pub async fn tx(&self, stmts: Vec<Statement>) -> (u16, ExecResponse) {
        let (status, body) = api_v1_transactions(
            Extension(self.agent.clone()),
            axum::extract::Query(TimeoutParams { timeout: None }),
            axum::extract::Json(stmts),
        )
        .await;
        (status.as_u16(), body.0)
    }

    /// read-only connection for digests (fresh connection: sees the latest schema)
    pub fn ro(&self) -> rusqlite::Result<klukai_types::sqlite::CrConn> {
        self.agent.pool().client_dedicated_readonly()
    }

    /// complete change list of one of our own versions, in seq order
    pub fn own_changes(&self, version: u64) -> rusqlite::Result<Vec<Change>> {
        let conn = self.ro()?;
        let mut st = conn.prepare(
            r#"SELECT "table", pk, cid, val, col_version, db_version, seq, site_id, cl FROM crsql_changes WHERE db_version = ? AND site_id = crsql_site_id() ORDER BY seq ASC"#,
        )?;
        let rows = st.query_map([version], klukai_types::change::row_to_change)?;
        rows.collect()
    }

    /// wait until the broadcast chunks of `version` (own actor) cover 0..=last_seq
    pub async fn collect_broadcast(&mut self, version: u64, last_seq: u64) -> Result<Vec<ChangeV1>, String> {
        let mut got: Vec<ChangeV1> = vec![];
        let mut covered: RangeInclusiveSet<u64> = RangeInclusiveSet::new();
        let deadline = Instant::now() + Duration::from_secs(60);
        loop {
            if covered.gaps(&(0..=last_seq)).next().is_none() && !got.is_empty() {
                return Ok(got);
            }
            let rem = deadline.saturating_duration_since(Instant::now());
            if rem.is_zero() {
                return Err(format!(
                    "broadcast of version {version} incomplete after 60s: covered {covered:?} of 0..={last_seq}"
                ));
            }
            match tokio::time::timeout(rem, self.rx_bcast.recv()).await {
                Ok(Some(BroadcastInput::AddBroadcast(BroadcastV1::Change(c))))
                | Ok(Some(BroadcastInput::Rebroadcast(BroadcastV1::Change(c)))) => {
                    if let Changeset::Full { version: v, seqs, .. } = &c.changeset
                        && v.0 == version
                    {
                        covered.insert(seqs.start().0..=seqs.end().0);
                    }
                    got.push(c);
                }
                Ok(None) => return Err("bcast channel closed".into()),
                Err(_) => {}
            }
        }
    }

    /// deliver a batch through the real ingest function
    pub async fn deliver(&self, batch: Vec<(ChangeV1, ChangeSource)>) -> Result<(), String> {
        self.deliver_with_timeout(batch, Duration::from_secs(60)).await
    }

    pub async fn deliver_with_timeout(&self, batch: Vec<(ChangeV1, ChangeSource)>, tx_timeout: Duration) -> Result<(), String> {
        let now = Instant::now();
        // own task: a panic inside the ingest path is an observation, not a harness crash
        let h = tokio::spawn(process_multiple_changes(
            self.agent.clone(),
            self.bookie.clone(),
            batch.into_iter().map(|(c, s)| (c, s, now)).collect(),
            tx_timeout,
        ));
        match h.await {
            Ok(r) => r.map_err(|e| e.to_string()),
            Err(e) if e.is_panic() => {
                let p = e.into_panic();
                let msg = p
                    .downcast_ref::<String>()
                    .cloned()
                    .or_else(|| p.downcast_ref::<&str>().map(|s| s.to_string()))
                    .unwrap_or_else(|| "<non-string panic>".into());
                Err(format!("PANIC: {msg}"))
            }
            Err(e) => Err(e.to_string()),
        }
    }

    /// apply every version whose trigger has been emitted (count known from the hook)
    pub async fn drain_apply(&mut self, expected_triggers: &mut u64) -> Result<Vec<(ActorId, u64, bool)>, String> {
        let mut out = vec![];
        while *expected_triggers > 0 {
            match tokio::time::timeout(Duration::from_secs(60), self.rx_apply.recv()).await {
                Ok(Some((actor, version))) => {
                    *expected_triggers -= 1;
                    let r = process_fully_buffered_changes(&self.agent, &self.bookie, actor, version, Duration::from_secs(60))
                        .await
                        .map_err(|e| e.to_string())?;
                    out.push((actor, version.0, r));
                }
                Ok(None) => return Err("apply channel closed".into()),
                Err(_) => return Err("apply trigger announced by hook never arrived on rx_apply (60s)".into()),
            }
        }
        Ok(out)
    }

    /// move emitted clear requests into the harness-side pending list
    pub fn poll_clears(&mut self) {
        while let Ok(m) = self.rx_clear_buf.try_recv() {
            self.pending_clears.push(m);
        }
    }

    /// forward pending clear requests to the real clear loop; returns how many were forwarded
    pub async fn forward_clears(&mut self) -> u64 {
        self.poll_clears();
        let mut n = 0;
        for m in std::mem::take(&mut self.pending_clears) {
            if self.clear_tx.send(m).await.is_ok() {
                n += 1;
            }
        }
        self.clear_forwarded += n;
        n
    }

    /// one real sync session: we are the client, `peer` serves. Returns what arrived.
    pub async fn sync_from(&mut self, peer_actor: ActorId, peer_addr: SocketAddr) -> Result<Vec<(ChangeV1, ChangeSource)>, String> {
        let state = generate_sync(&self.bookie, self.agent.actor_id()).await;
        let agent = self.agent.clone();
        let transport = self.transport.clone();
        let fut = async move { parallel_sync(&agent, &transport, vec![(peer_actor, peer_addr)], state).await };
        tokio::pin!(fut);
        let mut inbox = vec![];
        let res = loop {
            tokio::select! {
                biased;
                r = &mut fut => break r,
                Some(x) = self.rx_changes.recv() => inbox.push(x),
            }
        };
        while let Ok(x) = self.rx_changes.try_recv() {
            inbox.push(x);
        }
        match res {
            Ok(_) => Ok(inbox),
            Err(e) => Err(format!("{e}")),
        }
    }

    pub async fn sync_state(&self) -> SyncStateV1 {
        generate_sync(&self.bookie, self.agent.actor_id()).await
    }
}

// ---------------------------------------------------------------- hook counters

/// Tally of hook events drained from the in-process hook log.
#[derive(Default, Debug)]
pub struct HookTally {
    /// node actor id -> apply triggers announced (consumed by the harness)
    pub apply_triggers: BTreeMap<String, u64>,
    /// node actor id -> committed clear requests
    pub clear_commits: BTreeMap<String, u64>,
    /// which overlap case of the seq-range merge fired
    pub piv_cases: BTreeMap<String, u64>,
    /// label -> hits
    pub points: BTreeMap<String, u64>,
}

impl HookTally {
    pub fn update(&mut self) {
        for ev in verif::take_log() {
            *self.points.entry(ev.label.clone()).or_insert(0) += 1;
            match ev.label.as_str() {
                "pmc.apply_trigger" => {
                    let node = ev.payload.split(' ').next().unwrap_or("").to_string();
                    *self.apply_triggers.entry(node).or_insert(0) += 1;
                }
                "cbm.after_commit" => {
                    let node = ev.payload.split(' ').next().unwrap_or("").to_string();
                    *self.clear_commits.entry(node).or_insert(0) += 1;
                }
                "piv.merge" => {
                    for k in classify_piv(&ev.payload).split('+') {
                        *self.piv_cases.entry(k.to_string()).or_insert(0) += 1;
                    }
                }
                _ => {}
            }
        }
    }
}

/// payload: "<actor> <version> new=a..=b deleted=[(s, e), ...]"
fn classify_piv(p: &str) -> String {
    let new = p.split("new=").nth(1).and_then(|s| s.split(' ').next()).unwrap_or("");
    let (a, b) = new
        .split_once("..=")
        .and_then(|(a, b)| Some((a.parse::<u64>().ok()?, b.parse::<u64>().ok()?)))
        .unwrap_or((0, 0));
    let del = p.split("deleted=").nth(1).unwrap_or("[]");
    let mut nums: Vec<u64> = vec![];
    let mut cur = String::new();
    for ch in del.chars() {
        if ch.is_ascii_digit() {
            cur.push(ch);
        } else if !cur.is_empty() {
            nums.push(cur.parse().unwrap_or(0));
            cur.clear();
        }
    }
    if nums.is_empty() {
        return "none".into();
    }
    let mut kinds: Vec<&str> = vec![];
    for pair in nums.chunks(2) {
        if pair.len() < 2 {
            continue;
        }
        let (s, e) = (pair[0], pair[1]);
        let k = if e + 1 == a {
            "adjacent-before"
        } else if b + 1 == s {
            "adjacent-after"
        } else if s <= a && e >= b {
            "containing"
        } else if s >= a && e <= b {
            "contained"
        } else if s < a {
            "overlap-left"
        } else {
            "overlap-right"
        };
        if !kinds.contains(&k) {
            kinds.push(k);
        }
    }
    kinds.sort();
    kinds.join("+")
}

// ---------------------------------------------------------------- digests

pub type TablesDigest = BTreeMap<String, Vec<Vec<String>>>;
/// (table, pk hex, cid) -> (val, col_version, cl)
pub type CellsDigest = BTreeMap<(String, String, String), (String, i64, i64)>;

fn val_to_string(v: rusqlite::types::ValueRef<'_>) -> String {
    match v {
        rusqlite::types::ValueRef::Null => "NULL".into(),
        rusqlite::types::ValueRef::Integer(i) => format!("i:{i}"),
        rusqlite::types::ValueRef::Real(f) => format!("r:{f:?}"),
        rusqlite::types::ValueRef::Text(t) => {
            let s = String::from_utf8_lossy(t);
            if s.len() > 48 {
                format!("t:{}…#{}:{:016x}", &s[..32], s.len(), seahash::hash(t))
            } else {
                format!("t:{s}")
            }
        }
        rusqlite::types::ValueRef::Blob(b) => format!("b:{}", hex(b)),
    }
}

pub fn hex(b: &[u8]) -> String {
    let mut s = String::with_capacity(b.len() * 2);
    for x in b {
        s.push_str(&format!("{x:02x}"));
    }
    s
}

pub fn tables_digest(conn: &rusqlite::Connection, tables: &[&str]) -> rusqlite::Result<TablesDigest> {
    let mut out = BTreeMap::new();
    for t in tables {
        let mut st = conn.prepare(&format!("SELECT * FROM {t}"))?;
        let n = st.column_count();
        let mut rows: Vec<Vec<String>> = st
            .query_map([], |r| (0..n).map(|i| r.get_ref(i).map(val_to_string)).collect::<rusqlite::Result<Vec<_>>>())?
            .collect::<rusqlite::Result<Vec<_>>>()?;
        rows.sort();
        out.insert(t.to_string(), rows);
    }
    Ok(out)
}

pub fn cells_digest(conn: &rusqlite::Connection) -> rusqlite::Result<CellsDigest> {
    let mut st = conn.prepare(r#"SELECT "table", pk, cid, val, col_version, cl FROM crsql_changes"#)?;
    let mut out = BTreeMap::new();
    let mut rows = st.query([])?;
    while let Some(r) = rows.next()? {
        let table: String = r.get(0)?;
        let pk: Vec<u8> = r.get(1)?;
        let cid: String = r.get(2)?;
        let val = val_to_string(r.get_ref(3)?);
        out.insert((table, hex(&pk), cid), (val, r.get(4)?, r.get(5)?));
    }
    Ok(out)
}

/// extended cells digest incl. authorship: -> (val, col_version, cl, site_id hex, db_version, seq)
pub fn cells_ext_digest(conn: &rusqlite::Connection) -> rusqlite::Result<BTreeMap<(String, String, String), (String, i64, i64, String, i64, i64)>> {
    let mut st = conn.prepare(r#"SELECT "table", pk, cid, val, col_version, cl, site_id, db_version, seq FROM crsql_changes"#)?;
    let mut out = BTreeMap::new();
    let mut rows = st.query([])?;
    while let Some(r) = rows.next()? {
        let table: String = r.get(0)?;
        let pk: Vec<u8> = r.get(1)?;
        let cid: String = r.get(2)?;
        let val = val_to_string(r.get_ref(3)?);
        let site: Vec<u8> = r.get(6)?;
        out.insert((table, hex(&pk), cid), (val, r.get(4)?, r.get(5)?, hex(&site), r.get(7)?, r.get(8)?));
    }
    Ok(out)
}

#[derive(Debug, Clone, PartialEq, Eq, Default)]
pub struct BookDigest {
    pub gaps: Vec<(String, u64, u64)>,
    pub seqs: Vec<(String, u64, u64, u64, u64)>,
    pub buffered: Vec<(String, u64, u64)>,
}

pub fn book_digest(conn: &rusqlite::Connection) -> rusqlite::Result<BookDigest> {
    let mut d = BookDigest::default();
    {
        let mut st = conn.prepare("SELECT actor_id, start, end FROM __corro_bookkeeping_gaps ORDER BY 1,2")?;
        let mut rows = st.query([])?;
        while let Some(r) = rows.next()? {
            let a: Vec<u8> = r.get(0)?;
            d.gaps.push((hex(&a), r.get(1)?, r.get(2)?));
        }
    }
    {
        let mut st = conn.prepare("SELECT site_id, db_version, start_seq, end_seq, last_seq FROM __corro_seq_bookkeeping ORDER BY 1,2,3")?;
        let mut rows = st.query([])?;
        while let Some(r) = rows.next()? {
            let a: Vec<u8> = r.get(0)?;
            d.seqs.push((hex(&a), r.get(1)?, r.get(2)?, r.get(3)?, r.get(4)?));
        }
    }
    {
        let mut st = conn.prepare("SELECT site_id, db_version, seq FROM __corro_buffered_changes ORDER BY 1,2,3")?;
        let mut rows = st.query([])?;
        while let Some(r) = rows.next()? {
            let a: Vec<u8> = r.get(0)?;
            d.buffered.push((hex(&a), r.get(1)?, r.get(2)?));
        }
    }
    Ok(d)
}

/// (site hex, db_version) of versions in which two live changes share a seq
/// (cr-sqlite gives a synthesized resurrection sentinel the seq of the change that caused it)
pub fn versions_with_duplicate_seq(conn: &rusqlite::Connection) -> rusqlite::Result<BTreeSet<(String, i64)>> {
    let mut st = conn.prepare("SELECT site_id, db_version FROM crsql_changes GROUP BY site_id, db_version, seq HAVING COUNT(*) > 1")?;
    let mut rows = st.query([])?;
    let mut out = BTreeSet::new();
    while let Some(r) = rows.next()? {
        let s: Vec<u8> = r.get(0)?;
        out.insert((hex(&s), r.get(1)?));
    }
    Ok(out)
}

pub fn render_sync_state(s: &SyncStateV1) -> Value {
    json!({
        "heads": s.heads.iter().map(|(a, v)| (a.to_string(), v.0)).collect::<BTreeMap<_, _>>(),
        "need": s.need.iter().map(|(a, v)| (a.to_string(), v.iter().map(|r| [r.start().0, r.end().0]).collect::<Vec<_>>())).collect::<BTreeMap<_, _>>(),
        "partial_need": s.partial_need.iter().map(|(a, m)| (a.to_string(), m.iter().map(|(v, rs)| (v.0.to_string(), rs.iter().map(|r| [r.start().0, r.end().0]).collect::<Vec<_>>())).collect::<BTreeMap<_, _>>())).collect::<BTreeMap<_, _>>(),
    })
}

/// canonical, comparable form of a sync state
pub fn canon_sync_state(s: &SyncStateV1) -> String {
    render_sync_state(s).to_string()
}

// ---------------------------------------------------------------- re-chunking

/// cut a complete change list into changesets along `cuts` (seq boundaries)
pub fn make_chunks(actor: ActorId, version: u64, changes: &[Change], last_seq: u64, ts: klukai_types::broadcast::Timestamp, ranges: &[(u64, u64)]) -> Vec<ChangeV1> {
    ranges
        .iter()
        .map(|(a, b)| ChangeV1 {
            actor_id: actor,
            changeset: Changeset::Full {
                version: CrsqlDbVersion(version),
                changes: changes.iter().filter(|c| c.seq.0 >= *a && c.seq.0 <= *b).cloned().collect(),
                seqs: CrsqlSeq(*a)..=CrsqlSeq(*b),
                last_seq: CrsqlSeq(last_seq),
                ts,
            },
        })
        .collect()
}

pub fn changeset_brief(c: &ChangeV1) -> String {
    match &c.changeset {
        Changeset::Full { version, seqs, last_seq, changes, .. } if std::env::var_os("VH_VERBOSE").is_some() => {
            format!(
                "{}:v{}[{}..={}]/{} {:?}",
                &c.actor_id.to_string()[..6],
                version.0,
                seqs.start().0,
                seqs.end().0,
                last_seq.0,
                changes
                    .iter()
                    .map(|ch| format!("s{} {}.{}.{}={} cv{} cl{}", ch.seq.0, ch.table, hex(&ch.pk), ch.cid.as_str(), crate::common::truncate(&format!("{:?}", ch.val), 24), ch.col_version, ch.cl))
                    .collect::<Vec<_>>()
            )
        }
        Changeset::Full { version, seqs, last_seq, changes, .. } => {
            format!("{}:v{}[{}..={}]/{} ({} changes)", &c.actor_id.to_string()[..6], version.0, seqs.start().0, seqs.end().0, last_seq.0, changes.len())
        }
        Changeset::Empty { versions, .. } => format!("{}:empty[{}..={}]", &c.actor_id.to_string()[..6], versions.start().0, versions.end().0),
        Changeset::EmptySet { versions, .. } => format!("{}:emptyset{:?}", &c.actor_id.to_string()[..6], versions.iter().map(|r| (r.start().0, r.end().0)).collect::<Vec<_>>()),
    }
}

pub type Values = BTreeSet<String>;
pub fn _arc<T>(t: T) -> Arc<T> {
    Arc::new(t)
}
