//! Workload generator: transactions with unique values over few keys.

use std::collections::BTreeSet;

use klukai_types::api::{SqliteParam, Statement};
use rand::Rng;

/// values that may legitimately be visible: written by an acknowledged tx, or defaults
#[derive(Default, Clone, Debug)]
pub struct Provenance {
    pub texts: BTreeSet<String>,
    pub ints: BTreeSet<i64>,
}

#[derive(Clone, Debug)]
pub struct GenTx {
    pub stmts: Vec<Statement>,
    pub texts: Vec<String>,
    pub ints: Vec<i64>,
    pub kind: &'static str,
    pub brief: String,
}

pub struct TxGen {
    pub node: usize,
    pub counter: u64,
    pub int_counter: i64,
}

fn big(prefix: &str, len: usize) -> String {
    let mut s = String::with_capacity(len + prefix.len() + 1);
    s.push_str(prefix);
    s.push('#');
    while s.len() < len {
        s.push('x');
    }
    s
}

impl TxGen {
    pub fn new(node: usize) -> Self {
        Self {
            node,
            counter: 0,
            int_counter: (node as i64 + 1) * 1_000_000,
        }
    }

    fn text(&mut self, col: &str, out: &mut Vec<String>) -> String {
        let s = format!("n{}t{}{}", self.node, self.counter, col);
        out.push(s.clone());
        s
    }

    fn int(&mut self, out: &mut Vec<i64>) -> i64 {
        self.int_counter += 1;
        out.push(self.int_counter);
        self.int_counter
    }

    pub fn next(&mut self, rng: &mut impl Rng, big_ok: bool) -> GenTx {
        self.counter += 1;
        let mut texts = vec![];
        let mut ints = vec![];
        let mut stmts = vec![];
        let kind: &'static str;
        let k1s: [Vec<u8>; 2] = [vec![1], vec![1, 2]];
        let k2s = ["a", "b"];
        let pick_kind = rng.random_range(0..100);
        match pick_kind {
            0..=24 => {
                kind = "upsert_t1";
                let id = rng.random_range(1..=4i64);
                let a = self.text("a", &mut texts);
                let b = self.int(&mut ints);
                stmts.push(Statement::WithParams(
                    "INSERT INTO t1 (id, a, b) VALUES (?, ?, ?) ON CONFLICT (id) DO UPDATE SET a = excluded.a, b = excluded.b".into(),
                    vec![id.into(), a.into(), b.into()],
                ));
            }
            25..=36 => {
                kind = "update_t1_c";
                let id = rng.random_range(1..=4i64);
                let c = self.text("c", &mut texts);
                stmts.push(Statement::WithParams("UPDATE t1 SET c = ? WHERE id = ?".into(), vec![c.into(), id.into()]));
            }
            37..=46 => {
                kind = "delete_t1";
                let id = rng.random_range(1..=4i64);
                stmts.push(Statement::WithParams("DELETE FROM t1 WHERE id = ?".into(), vec![id.into()]));
            }
            47..=58 => {
                kind = "upsert_t2";
                let k1 = k1s[rng.random_range(0..2)].clone();
                let k2 = k2s[rng.random_range(0..2)];
                let v: SqliteParam = if rng.random_range(0..4) == 0 {
                    SqliteParam::Null
                } else {
                    self.text("v", &mut texts).into()
                };
                let n = self.int(&mut ints);
                stmts.push(Statement::WithParams(
                    "INSERT INTO t2 (k1, k2, v, n) VALUES (?, ?, ?, ?) ON CONFLICT (k1, k2) DO UPDATE SET v = excluded.v, n = excluded.n".into(),
                    vec![k1.into(), k2.into(), v, n.into()],
                ));
            }
            59..=64 => {
                kind = "delete_t2";
                let k1 = k1s[rng.random_range(0..2)].clone();
                let k2 = k2s[rng.random_range(0..2)];
                stmts.push(Statement::WithParams("DELETE FROM t2 WHERE k1 = ? AND k2 = ?".into(), vec![k1.into(), k2.into()]));
            }
            65..=76 => {
                kind = "multirow_t3";
                let tag = self.text("tag", &mut texts);
                let rows = rng.random_range(2..=12);
                for _ in 0..rows {
                    let id = rng.random_range(1..=12i64);
                    let p = self.text(&format!("p{id}"), &mut texts);
                    stmts.push(Statement::WithParams(
                        "INSERT INTO t3 (id, tag, payload) VALUES (?, ?, ?) ON CONFLICT (id) DO UPDATE SET tag = excluded.tag, payload = excluded.payload".into(),
                        vec![id.into(), tag.clone().into(), p.into()],
                    ));
                }
            }
            77..=86 if big_ok => {
                kind = "big_t3";
                let tag = self.text("tag", &mut texts);
                let rows = rng.random_range(2..=5);
                for _ in 0..rows {
                    let id = rng.random_range(1..=12i64);
                    let base = self.text(&format!("P{id}"), &mut vec![]);
                    let p = big(&base, rng.random_range(3_000..9_500));
                    texts.push(p.clone());
                    stmts.push(Statement::WithParams(
                        "INSERT INTO t3 (id, tag, payload) VALUES (?, ?, ?) ON CONFLICT (id) DO UPDATE SET tag = excluded.tag, payload = excluded.payload".into(),
                        vec![id.into(), tag.clone().into(), p.into()],
                    ));
                }
            }
            87..=92 if big_ok => {
                // first change of the version is >= 8 KiB: first broadcast chunk is seq 0 only
                kind = "big_first_t1";
                let id = rng.random_range(1..=4i64);
                let base = self.text("A", &mut vec![]);
                let a = big(&base, rng.random_range(8_300..9_500));
                texts.push(a.clone());
                let b = self.int(&mut ints);
                let c = self.text("c", &mut texts);
                stmts.push(Statement::WithParams(
                    "INSERT INTO t1 (id, a, b, c) VALUES (?, ?, ?, ?) ON CONFLICT (id) DO UPDATE SET a = excluded.a, b = excluded.b, c = excluded.c".into(),
                    vec![id.into(), a.into(), b.into(), c.into()],
                ));
            }
            93..=96 => {
                kind = "noop";
                stmts.push(Statement::Simple("UPDATE t1 SET a = a WHERE id = 999".into()));
            }
            _ => {
                kind = "multitable";
                let id = rng.random_range(1..=4i64);
                let a = self.text("a", &mut texts);
                let b = self.int(&mut ints);
                stmts.push(Statement::WithParams(
                    "INSERT INTO t1 (id, a, b) VALUES (?, ?, ?) ON CONFLICT (id) DO UPDATE SET a = excluded.a, b = excluded.b".into(),
                    vec![id.into(), a.into(), b.into()],
                ));
                let k1 = k1s[rng.random_range(0..2)].clone();
                let v = self.text("v", &mut texts);
                let n = self.int(&mut ints);
                stmts.push(Statement::WithParams(
                    "INSERT INTO t2 (k1, k2, v, n) VALUES (?, ?, ?, ?) ON CONFLICT (k1, k2) DO UPDATE SET v = excluded.v, n = excluded.n".into(),
                    vec![k1.into(), "a".into(), v.into(), n.into()],
                ));
                let tag = self.text("tag", &mut texts);
                let p = self.text("p", &mut texts);
                stmts.push(Statement::WithParams(
                    "INSERT INTO t3 (id, tag, payload) VALUES (?, ?, ?) ON CONFLICT (id) DO UPDATE SET tag = excluded.tag, payload = excluded.payload".into(),
                    vec![rng.random_range(1..=12i64).into(), tag.into(), p.into()],
                ));
            }
        }
        let brief = format!("n{} #{} {} ({} stmts)", self.node, self.counter, kind, stmts.len());
        GenTx {
            stmts,
            texts,
            ints,
            kind,
            brief,
        }
    }
}

impl Provenance {
    pub fn add(&mut self, tx: &GenTx) {
        for t in &tx.texts {
            self.texts.insert(t.clone());
        }
        for i in &tx.ints {
            self.ints.insert(*i);
        }
    }
}
