//! C07 — local transactions are all-or-nothing and get gap-free consecutive versions.

use std::{
    collections::{BTreeMap, BTreeSet},
    time::{Duration, Instant},
};

use axum::Extension;
use klukai_agent::api::public::{TimeoutParams, api_v1_transactions};
use klukai_types::{
    api::{SqliteParam, Statement},
    broadcast::{BroadcastInput, BroadcastV1, ChangeV1, Changeset},
    verif,
};
use rand::Rng;
use rangemap::RangeInclusiveSet;
use serde_json::{Value, json};

use super::{Node, NodeOpts, SCHEMA, TABLES, new_node, tables_digest};
use crate::{
    Check,
    common::{CheckSpec, Ctx, chance, hash_str},
};

pub fn check() -> Check {
    Check {
        spec: CheckSpec {
            prop: "C07",
            level: "exploration",
            rule: "execution = sequence of write requests (1-6 statements) against one real node through the real api_v1_transactions handler, with a failure injected at the first/middle/last statement (primary-key conflict, NOT NULL violation, syntax error, unknown table, wrong parameter count, named-parameter mismatch, statement timeout), no-op requests, and 0 to ~20000 cell changes (multi-chunk), issued sequentially or from 2-32 concurrent tasks with seeded delays at the commit hook; oracles: failed => none of its unique values visible, no version consumed, no change message; acknowledged => version = previous+1 (sequential) / acknowledged versions form a gap-free duplicate-free range (concurrent); no-op => no version; captured broadcast chunks of each version tile 0..=last_seq, carry that version only and (sequential mode) exactly the cells the request wrote; no need/partial for the own actor; final tables == replay of the acknowledged requests in version order on a plain SQLite database; non-trivial = execution containing a failing request or a multi-chunk version or concurrency; distinct by hash of the request log",
            assumptions: &["the plain-SQLite replay uses the same statements in acknowledged version order (SQLite is the trusted base)"],
            min_nontrivial: 30,
            required_stats: &["req.acked", "req.failed", "req.noop", "req.multi_chunk", "exec.concurrent", "fail.pk_conflict", "fail.syntax", "fail.param_count", "fail.not_null", "bcast.versions_checked"],
        },
        budget: (60, 900),
        workers: (12, 14),
        run,
    }
}

#[derive(Clone, Debug)]
struct Req {
    stmts: Vec<Statement>,
    values: Vec<String>, // unique text values this request writes
    expect_fail: Option<&'static str>,
    noop: bool,
    timeout: Option<u64>,
    brief: String,
}

struct Gen {
    counter: u64,
    /// ids known to exist in t1 (approximate: used to build pk conflicts)
    worker: usize,
}

impl Gen {
    fn val(&mut self, req: &mut Req, col: &str) -> String {
        let s = format!("w{}r{}{}", self.worker, self.counter, col);
        req.values.push(s.clone());
        s
    }

    fn good_stmt(&mut self, rng: &mut impl Rng, req: &mut Req) -> Statement {
        match rng.random_range(0..6) {
            0 | 1 => {
                let id = rng.random_range(1..=6i64);
                let a = self.val(req, &format!("a{}", req.stmts.len()));
                Statement::WithParams(
                    "INSERT INTO t1 (id, a, b) VALUES (?, ?, ?) ON CONFLICT (id) DO UPDATE SET a = excluded.a, b = excluded.b".into(),
                    vec![id.into(), a.into(), (self.counter as i64).into()],
                )
            }
            2 => {
                let id = rng.random_range(1..=6i64);
                let c = self.val(req, &format!("c{}", req.stmts.len()));
                let mut m = std::collections::HashMap::new();
                m.insert(":c".to_string(), SqliteParam::from(c));
                m.insert(":id".to_string(), SqliteParam::from(id));
                Statement::WithNamedParams("UPDATE t1 SET c = :c WHERE id = :id".into(), m)
            }
            3 => Statement::WithParams("DELETE FROM t1 WHERE id = ?".into(), vec![rng.random_range(1..=6i64).into()]),
            4 => {
                let v = self.val(req, &format!("v{}", req.stmts.len()));
                Statement::Verbose {
                    query: "INSERT INTO t2 (k1, k2, v, n) VALUES (?, ?, ?, ?) ON CONFLICT (k1, k2) DO UPDATE SET v = excluded.v, n = excluded.n".into(),
                    params: Some(vec![vec![1u8, rng.random_range(0..3u8)].into(), "k".into(), v.into(), (self.counter as i64).into()]),
                    named_params: None,
                }
            }
            _ => {
                let tag = self.val(req, &format!("t{}", req.stmts.len()));
                Statement::WithParams(
                    "INSERT INTO t3 (id, tag, payload) VALUES (?, ?, ?) ON CONFLICT (id) DO UPDATE SET tag = excluded.tag, payload = excluded.payload".into(),
                    vec![rng.random_range(1..=8i64).into(), tag.clone().into(), format!("{tag}-p").into()],
                )
            }
        }
    }

    fn bad_stmt(&mut self, rng: &mut impl Rng, req: &mut Req) -> (Statement, &'static str) {
        match rng.random_range(0..7) {
            0 => {
                // primary key conflict: two plain inserts of the same fresh id inside this statement list
                let a = self.val(req, "pk");
                (
                    Statement::WithParams("INSERT INTO t1 (id, a) VALUES (777, ?), (777, ?)".into(), vec![a.clone().into(), a.into()]),
                    "pk_conflict",
                )
            }
            1 => {
                let _ = self.val(req, "nn");
                (Statement::WithParams("INSERT INTO t1 (id, a) VALUES (?, NULL)".into(), vec![888i64.into()]), "not_null")
            }
            2 => (Statement::Simple("INSERT INTO t1 (id, a VALUES (1, 'x')".into()), "syntax"),
            3 => {
                let v = self.val(req, "ut");
                (Statement::WithParams("INSERT INTO no_such_table (id, a) VALUES (1, ?)".into(), vec![v.into()]), "unknown_table")
            }
            4 => {
                let v = self.val(req, "pc");
                (Statement::WithParams("INSERT INTO t1 (id, a, b) VALUES (?, ?, ?)".into(), vec![999i64.into(), v.into()]), "param_count")
            }
            5 => {
                let v = self.val(req, "np");
                let mut m = std::collections::HashMap::new();
                m.insert(":nope".to_string(), SqliteParam::from(v));
                (Statement::WithNamedParams("INSERT INTO t1 (id, a) VALUES (998, :a)".into(), m), "named_param")
            }
            _ => {
                // unique index-like failure through a CHECK-less path: duplicate composite key in one insert
                let v = self.val(req, "ck");
                (
                    Statement::WithParams("INSERT INTO t2 (k1, k2, v) VALUES (x'09', 'd', ?), (x'09', 'd', ?)".into(), vec![v.clone().into(), v.into()]),
                    "pk_conflict",
                )
            }
        }
    }

    fn next(&mut self, rng: &mut impl Rng, allow_slow: bool) -> Req {
        self.counter += 1;
        let mut req = Req {
            stmts: vec![],
            values: vec![],
            expect_fail: None,
            noop: false,
            timeout: None,
            brief: String::new(),
        };
        let kind = rng.random_range(0..100);
        if kind < 8 {
            req.noop = true;
            req.stmts.push(Statement::Simple("UPDATE t1 SET a = a WHERE id = 424242".into()));
            if chance(rng, 500) {
                req.stmts.push(Statement::Simple("DELETE FROM t3 WHERE id = 424242".into()));
            }
        } else if kind < 14 {
            // big: thousands of cell changes in one version
            let n = *crate::common::pick(rng, &[300i64, 1500, 5000, 10_000]);
            let tag = self.val(&mut req, "big");
            req.stmts.push(Statement::WithParams(
                "INSERT INTO t3 (id, tag, payload) SELECT value + 100000, ?, 'p' || value FROM generate_series(1, ?)".into(),
                vec![tag.into(), n.into()],
            ));
            // and remove them again in a later request sometimes (keeps the table small)
        } else if kind < 16 && allow_slow {
            // statement running into ?timeout=1
            req.timeout = Some(1);
            let v = self.val(&mut req, "slow");
            req.stmts.push(Statement::WithParams(
                "INSERT INTO t1 (id, a) VALUES (?, ?) ON CONFLICT (id) DO UPDATE SET a = excluded.a".into(),
                vec![5i64.into(), v.into()],
            ));
            req.stmts.push(Statement::Simple(
                "WITH RECURSIVE c(x) AS (SELECT 1 UNION ALL SELECT x + 1 FROM c WHERE x < 2000000000) INSERT INTO t1 (id, a) SELECT 4242, 'never' FROM c WHERE x = 2000000000".into(),
            ));
            req.expect_fail = Some("timeout");
        } else {
            let n = rng.random_range(1..=6usize);
            let fail_at = if chance(rng, 350) {
                Some(*crate::common::pick(rng, &[0usize, n / 2, n - 1]))
            } else {
                None
            };
            for i in 0..n {
                if Some(i) == fail_at {
                    let (s, why) = self.bad_stmt(rng, &mut req);
                    req.stmts.push(s);
                    req.expect_fail = Some(why);
                } else {
                    let s = self.good_stmt(rng, &mut req);
                    req.stmts.push(s);
                }
            }
        }
        req.brief = format!(
            "w{}r{} {} stmts{}{}",
            self.worker,
            self.counter,
            req.stmts.len(),
            req.expect_fail.map(|f| format!(" fail:{f}")).unwrap_or_default(),
            if req.noop { " noop" } else { "" }
        );
        req
    }
}

async fn submit(node: &Node, req: &Req) -> (u16, Option<u64>) {
    let (status, body) = api_v1_transactions(
        Extension(node.agent.clone()),
        axum::extract::Query(TimeoutParams { timeout: req.timeout }),
        axum::extract::Json(req.stmts.clone()),
    )
    .await;
    (status.as_u16(), body.0.version)
}

fn param_to_sql(p: &SqliteParam) -> rusqlite::types::Value {
    match p {
        SqliteParam::Null => rusqlite::types::Value::Null,
        SqliteParam::Bool(b) => rusqlite::types::Value::Integer(*b as i64),
        SqliteParam::Integer(i) => rusqlite::types::Value::Integer(*i),
        SqliteParam::Real(f) => rusqlite::types::Value::Real(*f),
        SqliteParam::Text(t) => rusqlite::types::Value::Text(t.to_string()),
        SqliteParam::Blob(b) => rusqlite::types::Value::Blob(b.to_vec()),
        SqliteParam::Json(j) => rusqlite::types::Value::Text(j.get().to_string()),
    }
}

/// replay on a plain SQLite database (no cr-sqlite, no corrosion)
fn replay(reqs: &[&Req]) -> rusqlite::Result<super::TablesDigest> {
    let conn = rusqlite::Connection::open_in_memory()?;
    rusqlite::vtab::series::load_module(&conn)?;
    conn.execute_batch(SCHEMA)?;
    for r in reqs {
        let tx = conn.unchecked_transaction()?;
        for s in r.stmts.iter() {
            let mut st = tx.prepare(s.query())?;
            match s {
                Statement::Simple(_) => {
                    st.execute([])?;
                }
                Statement::WithParams(_, p) | Statement::Verbose { params: Some(p), .. } => {
                    st.execute(rusqlite::params_from_iter(p.iter().map(param_to_sql)))?;
                }
                Statement::WithNamedParams(_, m) | Statement::Verbose { named_params: Some(m), .. } => {
                    let v: Vec<(String, rusqlite::types::Value)> = m.iter().map(|(k, v)| (k.clone(), param_to_sql(v))).collect();
                    let refs: Vec<(&str, &dyn rusqlite::ToSql)> = v.iter().map(|(k, v)| (k.as_str(), v as &dyn rusqlite::ToSql)).collect();
                    st.execute(refs.as_slice())?;
                }
                Statement::Verbose { .. } => {
                    st.execute([])?;
                }
            }
        }
        tx.commit()?;
    }
    tables_digest(&conn, &TABLES)
}

fn visible_values(conn: &rusqlite::Connection) -> rusqlite::Result<BTreeSet<String>> {
    let mut out = BTreeSet::new();
    for (t, cols) in [("t1", vec!["a", "c"]), ("t2", vec!["v"]), ("t3", vec!["tag"])] {
        for c in cols {
            let mut st = conn.prepare(&format!("SELECT DISTINCT {c} FROM {t} WHERE {c} IS NOT NULL"))?;
            let mut rows = st.query([])?;
            while let Some(r) = rows.next()? {
                out.insert(r.get::<_, String>(0)?);
            }
        }
    }
    Ok(out)
}

async fn drain_bcast(node: &mut Node, acked: &BTreeSet<u64>, out: &mut Vec<ChangeV1>) -> Result<(), String> {
    // wait until every acknowledged version is covered 0..=last_seq by what was captured
    let deadline = Instant::now() + Duration::from_secs(90);
    loop {
        let mut cover: BTreeMap<u64, (RangeInclusiveSet<u64>, u64)> = BTreeMap::new();
        for c in out.iter() {
            if let Changeset::Full { version, seqs, last_seq, .. } = &c.changeset {
                let e = cover.entry(version.0).or_insert_with(|| (RangeInclusiveSet::new(), last_seq.0));
                e.0.insert(seqs.start().0..=seqs.end().0);
            }
        }
        let done = acked.iter().all(|v| cover.get(v).map(|(s, l)| s.gaps(&(0..=*l)).next().is_none()).unwrap_or(false));
        if done {
            // take whatever else is already queued
            while let Ok(m) = node.rx_bcast.try_recv() {
                if let BroadcastInput::AddBroadcast(BroadcastV1::Change(c)) | BroadcastInput::Rebroadcast(BroadcastV1::Change(c)) = m {
                    out.push(c);
                }
            }
            return Ok(());
        }
        let rem = deadline.saturating_duration_since(Instant::now());
        if rem.is_zero() {
            return Err("missing".into());
        }
        match tokio::time::timeout(rem.min(Duration::from_millis(500)), node.rx_bcast.recv()).await {
            Ok(Some(BroadcastInput::AddBroadcast(BroadcastV1::Change(c)))) | Ok(Some(BroadcastInput::Rebroadcast(BroadcastV1::Change(c)))) => out.push(c),
            Ok(None) => return Err("closed".into()),
            Err(_) => {}
        }
    }
}

pub async fn one_execution(seed: u64, stats: &mut BTreeMap<String, u64>) -> Result<(Vec<(String, Value)>, String, bool), String> {
    use rand::SeedableRng;
    let mut rng = rand::rngs::StdRng::seed_from_u64(seed);
    let mut node = new_node(0, NodeOpts::default()).await.map_err(|e| e.to_string())?;
    let concurrent = chance(&mut rng, 400);
    let mut violations: Vec<(String, Value)> = vec![];
    let mut log: Vec<String> = vec![];
    let mut nontrivial = concurrent;
    let bump = |stats: &mut BTreeMap<String, u64>, k: &str| *stats.entry(k.to_string()).or_insert(0) += 1;

    // (req, status, version)
    let mut done: Vec<(Req, u16, Option<u64>)> = vec![];
    let mut bcast: Vec<ChangeV1> = vec![];

    if !concurrent {
        let n = rng.random_range(4..=25);
        let mut g = Gen { counter: 0, worker: 0 };
        let mut prev: u64 = 0;
        for _ in 0..n {
            let req = g.next(&mut rng, seed % 16 == 0);
            let (status, version) = submit(&node, &req).await;
            log.push(format!("{} -> {status} {version:?}", req.brief));
            // ---- immediate checks (sequential mode)
            if status == 200 {
                if let Some(v) = version {
                    if v != prev + 1 {
                        violations.push(("version/acknowledged-version-not-previous-plus-one".into(), json!({"previous": prev, "got": v, "log": log})));
                    }
                    prev = v;
                    // broadcast of exactly this version must carry exactly the cells written
                    let changes = node.own_changes(v).map_err(|e| e.to_string())?;
                    let last_seq = changes.iter().map(|c| c.seq.0).max().unwrap_or(0);
                    let mut acked1 = BTreeSet::new();
                    acked1.insert(v);
                    let mut got = vec![];
                    if drain_bcast(&mut node, &acked1, &mut got).await.is_err() {
                        violations.push(("announce/acknowledged-version-never-announced".into(), json!({"version": v, "log": log})));
                    }
                    let mut sent: Vec<_> = got
                        .iter()
                        .filter(|c| c.versions().start().0 == v)
                        .flat_map(|c| c.changes().to_vec())
                        .collect();
                    sent.sort_by_key(|c| c.seq);
                    if sent != changes {
                        violations.push((
                            "announce/changes-differ-from-cells-the-request-wrote".into(),
                            json!({"version": v, "sent": sent.len(), "written": changes.len(), "last_seq": last_seq, "log": log}),
                        ));
                    }
                    if got.len() > 1 {
                        bump(stats, "req.multi_chunk");
                        nontrivial = true;
                    }
                    bcast.extend(got);
                }
            }
            done.push((req, status, version));
        }
    } else {
        bump(stats, "exec.concurrent");
        verif::set_seed(seed);
        verif::set_delay("local.after_commit", 300, 3_000);
        let tasks = *crate::common::pick(&mut rng, &[2usize, 4, 8, 16, 32]);
        let per = rng.random_range(2..=6);
        let mut handles = vec![];
        for w in 0..tasks {
            let agent = node.agent.clone();
            let wseed: u64 = rng.random();
            handles.push(tokio::spawn(async move {
                let mut rng = rand::rngs::StdRng::seed_from_u64(wseed);
                let mut g = Gen { counter: 0, worker: w + 1 };
                let mut out = vec![];
                for _ in 0..per {
                    let req = g.next(&mut rng, false);
                    let (status, body) = api_v1_transactions(
                        Extension(agent.clone()),
                        axum::extract::Query(TimeoutParams { timeout: req.timeout }),
                        axum::extract::Json(req.stmts.clone()),
                    )
                    .await;
                    out.push((req, status.as_u16(), body.0.version));
                }
                out
            }));
        }
        for h in handles {
            match h.await {
                Ok(v) => done.extend(v),
                Err(e) => return Err(format!("client task: {e}")),
            }
        }
        verif::clear_delays();
        done.sort_by_key(|(_, _, v)| v.unwrap_or(u64::MAX));
        for (r, s, v) in done.iter() {
            log.push(format!("{} -> {s} {v:?}", r.brief));
        }
    }

    // ---- classification + global checks
    let mut acked: BTreeSet<u64> = BTreeSet::new();
    let mut dup = false;
    for (req, status, version) in done.iter() {
        if *status == 200 {
            match version {
                Some(v) => {
                    bump(stats, "req.acked");
                    if !acked.insert(*v) {
                        dup = true;
                    }
                    if req.noop {
                        violations.push(("version/no-op-request-consumed-a-version".into(), json!({"request": req.brief, "version": v, "log": log})));
                    }
                }
                None => bump(stats, "req.noop"),
            }
            if let Some(f) = req.expect_fail {
                violations.push(("atomicity/request-with-failing-statement-acknowledged".into(), json!({"request": req.brief, "failure": f, "log": log})));
            }
        } else {
            bump(stats, "req.failed");
            nontrivial = true;
            if let Some(f) = req.expect_fail {
                bump(stats, &format!("fail.{f}"));
            } else {
                // an unexpected failure is not a violation in itself (e.g. load shedding), but record it
                bump(stats, "req.failed_unexpectedly");
            }
            if version.is_some() {
                violations.push(("atomicity/failed-request-reported-a-version".into(), json!({"request": req.brief, "log": log})));
            }
        }
    }
    if dup {
        violations.push(("version/duplicate-acknowledged-version".into(), json!({"log": log})));
    }
    if let (Some(min), Some(max)) = (acked.first(), acked.last())
        && (*min != 1 || (*max - *min + 1) as usize != acked.len())
    {
        violations.push(("version/acknowledged-versions-not-gap-free-from-1".into(), json!({"acked": acked, "log": log})));
    }

    // broadcasts
    if concurrent && drain_bcast(&mut node, &acked, &mut bcast).await.is_err() {
        violations.push(("announce/acknowledged-version-never-announced".into(), json!({"acked": acked, "log": log})));
    }
    // give stray messages (of failed requests) a moment, then take what is there
    tokio::time::sleep(Duration::from_millis(20)).await;
    while let Ok(m) = node.rx_bcast.try_recv() {
        if let BroadcastInput::AddBroadcast(BroadcastV1::Change(c)) | BroadcastInput::Rebroadcast(BroadcastV1::Change(c)) = m {
            bcast.push(c);
        }
    }
    let mut by_version: BTreeMap<u64, Vec<&ChangeV1>> = BTreeMap::new();
    for c in bcast.iter() {
        if c.actor_id != node.actor() {
            violations.push(("announce/foreign-actor-in-own-broadcast".into(), json!({"log": log})));
        }
        match &c.changeset {
            Changeset::Full { version, .. } => by_version.entry(version.0).or_default().push(c),
            _ => violations.push(("announce/non-full-changeset-for-local-write".into(), json!({"log": log}))),
        }
    }
    for (v, chunks) in by_version.iter() {
        bump(stats, "bcast.versions_checked");
        if !acked.contains(v) {
            violations.push(("atomicity/change-message-for-unacknowledged-version".into(), json!({"version": v, "acked": acked, "log": log})));
            continue;
        }
        let mut ranges: Vec<(u64, u64, u64)> = chunks
            .iter()
            .filter_map(|c| match &c.changeset {
                Changeset::Full { seqs, last_seq, .. } => Some((seqs.start().0, seqs.end().0, last_seq.0)),
                _ => None,
            })
            .collect();
        ranges.sort();
        let last = ranges[0].2;
        let mut next = 0;
        let mut ok = true;
        for (s, e, l) in ranges.iter() {
            if *s != next || *l != last {
                ok = false;
            }
            next = e + 1;
        }
        if !ok || next != last + 1 {
            violations.push(("announce/chunks-do-not-tile-0..=last_seq".into(), json!({"version": v, "ranges": ranges, "log": log})));
        }
        for c in chunks.iter() {
            if let Changeset::Full { changes, seqs, version, .. } = &c.changeset {
                if changes.iter().any(|ch| ch.seq < *seqs.start() || ch.seq > *seqs.end() || ch.db_version != *version) {
                    violations.push(("announce/change-outside-chunk-range-or-version".into(), json!({"version": v, "log": log})));
                }
            }
        }
    }

    // failed requests left no value behind; acknowledged state == plain replay
    let conn = node.ro().map_err(|e| e.to_string())?;
    let visible = visible_values(&conn).map_err(|e| e.to_string())?;
    for (req, status, _) in done.iter() {
        if *status != 200 {
            if let Some(v) = req.values.iter().find(|v| visible.contains(*v)) {
                violations.push(("atomicity/value-of-failed-request-visible".into(), json!({"request": req.brief, "value": v, "log": log})));
            }
        }
    }
    let acked_reqs: Vec<&Req> = {
        let mut v: Vec<(&Req, u64)> = done.iter().filter_map(|(r, s, ver)| if *s == 200 { ver.map(|x| (r, x)) } else { None }).collect();
        v.sort_by_key(|x| x.1);
        v.into_iter().map(|x| x.0).collect()
    };
    match replay(&acked_reqs) {
        Ok(want) => {
            let got = tables_digest(&conn, &TABLES).map_err(|e| e.to_string())?;
            if got != want {
                let mut d = vec![];
                for (t, rows) in got.iter() {
                    let w = want.get(t).cloned().unwrap_or_default();
                    for r in rows.iter().filter(|r| !w.contains(r)).take(3) {
                        d.push(format!("{t}: only node {r:?}"));
                    }
                    for r in w.iter().filter(|r| !rows.contains(r)).take(3) {
                        d.push(format!("{t}: only replay {r:?}"));
                    }
                }
                violations.push(("result/tables-differ-from-replay-of-acknowledged-requests".into(), json!({"diff": d, "log": log})));
            }
        }
        Err(e) => return Err(format!("plain replay failed: {e}")),
    }
    // no gap / partial for our own actor
    let st = node.sync_state().await;
    let me = node.actor();
    if st.need.contains_key(&me) || st.partial_need.contains_key(&me) {
        violations.push(("version/node-lists-gap-in-own-versions".into(), json!({"state": super::render_sync_state(&st), "log": log})));
    }
    if let Some(max) = acked.last()
        && st.heads.get(&me).map(|v| v.0) != Some(*max)
    {
        violations.push(("version/own-head-differs-from-last-acknowledged".into(), json!({"head": st.heads.get(&me).map(|v| v.0), "last_acked": max, "log": log})));
    }
    drop(conn);
    let h = format!("{log:?}");
    drop(node.shutdown().await);
    Ok((violations, h, nontrivial))
}

fn run(ctx: &mut Ctx) {
    std::panic::set_hook(Box::new(|_| {}));
    let rt = tokio::runtime::Builder::new_multi_thread().worker_threads(4).enable_all().build().unwrap();
    let target = ctx.tier.pick(400u64, 100_000u64);
    let only: Option<u64> = ctx.extra.iter().position(|a| a == "--exec-seed").and_then(|p| ctx.extra.get(p + 1)).and_then(|s| s.parse().ok());
    let mut i = 0u64;
    while i < target && ctx.time_left() {
        i += 1;
        let mut seed = ctx.seed.wrapping_mul(1_000_003).wrapping_add((ctx.worker as u64) << 40).wrapping_add(i);
        if let Some(o) = only {
            if i > 1 || ctx.worker != 0 {
                break;
            }
            seed = o;
        }
        let mut stats = BTreeMap::new();
        let res = rt.block_on(async { tokio::time::timeout(Duration::from_secs(300), one_execution(seed, &mut stats)).await });
        for (k, v) in stats {
            ctx.stat(&k, v);
        }
        match res {
            Err(_) => ctx.inconclusive(format!("execution seed {seed} exceeded the 300s watchdog")),
            Ok(Err(e)) => ctx.inconclusive(format!("execution seed {seed}: {e}")),
            Ok(Ok((violations, h, nontrivial))) => {
                ctx.exec(hash_str(&h), nontrivial);
                for (sig, mut d) in violations {
                    d["exec_seed"] = json!(seed);
                    ctx.violation(sig, d);
                }
                if nontrivial {
                    ctx.sample(|| json!({"exec_seed": seed, "requests": h.chars().take(1500).collect::<String>()}));
                }
            }
        }
    }
}
