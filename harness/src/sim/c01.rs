//! C01 — replicas converge under any delivery order, duplication, chunking and loss.

use std::collections::BTreeMap;

use klukai_types::{
    broadcast::{ChangeSource, ChangeV1, Changeset, Timestamp},
    change::Change,
};
use rand::{Rng, seq::SliceRandom};
use serde_json::{Value, json};

use super::{
    HookTally, Node, NodeOpts, TABLES, book_digest, canon_sync_state, cells_digest, changeset_brief, new_node,
    render_sync_state, tables_digest,
    work::{Provenance, TxGen},
};
use crate::{
    Check,
    common::{CheckSpec, Ctx, chance, hash_str},
};

pub fn check() -> Check {
    Check {
        spec: CheckSpec {
            prop: "C01",
            level: "exploration",
            rule: "execution = seeded history of local transactions (upserts, column updates, deletes, re-inserts, multi-row, multi-table, >=8 KiB values giving multi-chunk versions, no-ops) on 2-4 real nodes interleaved with a seeded delivery schedule over the captured broadcast chunks (batched 1-8, mixed actors, duplicated, dropped, re-chunked, delayed, relayed) then real QUIC sync sessions over all ordered pairs until a fixpoint; oracles: pairwise equality of table contents and per-cell (col_version, causal length), equality with a reference merge fed the complete unchunked change lists, provenance of every visible value; non-trivial = execution with a cell written by >=2 nodes or a version recovered only by sync or applied through the buffered path; distinct by hash of history+schedule",
            assumptions: &[
                "cr-sqlite's merge (commutative, idempotent) is the trusted base of the reference merge",
                "bounded liveness: the sync fixpoint must be reached within N+3 rounds of all ordered pairs",
                "loopback QUIC is reliable within one session; failed sessions are retried, not judged",
            ],
            min_nontrivial: 8,
            required_stats: &["tx.acked", "deliver.calls", "sync.sessions_ok", "msgs.dropped", "msgs.duplicated", "exec.converged"],
        },
        budget: (60, 900),
        workers: (12, 14),
        run,
    }
}

pub struct Acked {
    pub node: usize,
    pub version: u64,
    pub last_seq: u64,
    pub changes: Vec<Change>,
    pub brief: String,
}

pub struct Msg {
    pub change: ChangeV1,
    pub src: ChangeSource,
}

pub struct Exec {
    pub nodes: Vec<Node>,
    pub reference: Node,
    pub gens: Vec<TxGen>,
    pub prov: Provenance,
    pub acked: Vec<Acked>,
    pub inflight: Vec<Vec<Msg>>, // per destination node
    pub tally: HookTally,
    pub pending_triggers: Vec<u64>,
    pub log: Vec<String>,
    pub panics: Vec<String>,
    pub stats: BTreeMap<String, u64>,
}

impl Exec {
    pub async fn new(n: usize) -> eyre::Result<Self> {
        let mut nodes = vec![];
        for i in 0..n {
            nodes.push(new_node(i, NodeOpts::default()).await?);
        }
        let reference = new_node(
            99,
            NodeOpts {
                serve_sync: false,
                ..Default::default()
            },
        )
        .await?;
        Ok(Self {
            gens: (0..n).map(TxGen::new).collect(),
            inflight: (0..n).map(|_| vec![]).collect(),
            pending_triggers: vec![0; n],
            nodes,
            reference,
            prov: Provenance::default(),
            acked: vec![],
            tally: HookTally::default(),
            log: vec![],
            panics: vec![],
            stats: BTreeMap::new(),
        })
    }

    pub fn stat(&mut self, k: &str, n: u64) {
        *self.stats.entry(k.to_string()).or_insert(0) += n;
    }

    fn note(&mut self, s: String) {
        if self.log.len() < 400 {
            self.log.push(s);
        }
    }

    /// returns Err(reason) for harness trouble (inconclusive)
    pub async fn do_tx(&mut self, node: usize, rng: &mut impl Rng, big_ok: bool) -> Result<(), String> {
        let g = self.gens[node].next(rng, big_ok);
        let (status, body) = self.nodes[node].tx(g.stmts.clone()).await;
        self.stat("tx.issued", 1);
        if status != 200 {
            self.stat("tx.failed", 1);
            self.note(format!("tx {} -> {status}", g.brief));
            return Ok(());
        }
        match body.version {
            None => {
                self.stat("tx.noop", 1);
                self.note(format!("tx {} -> 200 no version", g.brief));
            }
            Some(v) => {
                self.stat("tx.acked", 1);
                self.stat(&format!("tx.kind.{}", g.kind), 1);
                self.prov.add(&g);
                let changes = self.nodes[node].own_changes(v).map_err(|e| e.to_string())?;
                let last_seq = changes.iter().map(|c| c.seq.0).max().unwrap_or(0);
                let chunks = self.nodes[node].collect_broadcast(v, last_seq).await?;
                if chunks.len() > 1 {
                    self.stat("tx.multi_chunk_versions", 1);
                }
                self.note(format!(
                    "tx {} -> v{v} last_seq {last_seq} chunks {:?}",
                    g.brief,
                    chunks.iter().map(changeset_brief).collect::<Vec<_>>()
                ));
                // feed the reference: complete, unchunked, origin order
                apply_to_reference(&self.reference, &changes).await?;
                for (dst, q) in self.inflight.iter_mut().enumerate() {
                    if dst == node {
                        continue;
                    }
                    for c in chunks.iter() {
                        q.push(Msg {
                            change: c.clone(),
                            src: ChangeSource::Broadcast,
                        });
                    }
                }
                self.acked.push(Acked {
                    node,
                    version: v,
                    last_seq,
                    changes,
                    brief: g.brief,
                });
            }
        }
        Ok(())
    }

    pub async fn deliver(&mut self, node: usize, batch: Vec<Msg>) -> Result<(), String> {
        if batch.is_empty() {
            return Ok(());
        }
        self.stat("deliver.calls", 1);
        self.stat("deliver.changesets", batch.len() as u64);
        let actors: std::collections::BTreeSet<_> = batch.iter().map(|m| m.change.actor_id).collect();
        if actors.len() > 1 {
            self.stat("deliver.mixed_actor_batches", 1);
        }
        self.note(format!(
            "deliver -> n{node}: {:?}",
            batch.iter().map(|m| changeset_brief(&m.change)).collect::<Vec<_>>()
        ));
        self.trace_pk(node, "BEFORE the next delivery");
        if std::env::var_os("VH_TRACE_PK").is_some() {
            for m in batch.iter() {
                if let Changeset::Full { changes, version, .. } = &m.change.changeset {
                    for ch in changes {
                        eprintln!("   change in batch: v{} {}.{} pk={} val={:?} cv{} cl{} seq{}", version.0, ch.table.0, ch.cid.0, super::hex(&ch.pk), format!("{:?}", ch.val).chars().take(24).collect::<String>(), ch.col_version, ch.cl, ch.seq.0);
                    }
                }
            }
        }
        let r = self.nodes[node]
            .deliver(batch.into_iter().map(|m| (m.change, m.src)).collect())
            .await;
        self.collect_hooks();
        self.trace_pk(node, self.log.last().map(|s| s.as_str()).unwrap_or("deliver"));
        match r {
            Err(e) if e.starts_with("PANIC: ") => {
                self.note(format!("  -> {e}"));
                self.panics.push(e);
                Ok(())
            }
            other => other,
        }
    }

    /// debugging aid: VH_TRACE_PK=<hex pk> prints the cell metadata of that key on a node
    pub fn trace_pk(&self, node: usize, what: &str) {
        let Ok(pk) = std::env::var("VH_TRACE_PK") else { return };
        let Ok(c) = self.nodes[node].ro() else { return };
        let Ok(mut st) = c.prepare(r#"SELECT "table", cid, quote(val), col_version, db_version, seq, hex(site_id), cl FROM crsql_changes WHERE hex(pk) = ? ORDER BY 1, 2"#) else { return };
        let rows: Vec<String> = st
            .query_map([pk], |r| Ok(format!("{}.{}={} cv{} dbv{} seq{} site{} cl{}", r.get::<_, String>(0)?, r.get::<_, String>(1)?, r.get::<_, String>(2)?.chars().take(12).collect::<String>(), r.get::<_, i64>(3)?, r.get::<_, i64>(4)?, r.get::<_, i64>(5)?, &r.get::<_, String>(6)?[..4], r.get::<_, i64>(7)?)))
            .map(|it| it.filter_map(Result::ok).collect())
            .unwrap_or_default();
        eprintln!("TRACE n{node} after {what}: {rows:?}");
    }

    pub fn collect_hooks(&mut self) {
        self.tally.update();
        for (i, n) in self.nodes.iter().enumerate() {
            let key = n.actor().to_string();
            if let Some(c) = self.tally.apply_triggers.remove(&key) {
                self.pending_triggers[i] += c;
            }
        }
    }

    pub async fn apply(&mut self, node: usize) -> Result<(), String> {
        let mut pending = self.pending_triggers[node];
        if pending == 0 {
            return Ok(());
        }
        let res = self.nodes[node].drain_apply(&mut pending).await?;
        self.pending_triggers[node] = pending;
        for (actor, v, applied) in res {
            self.stat("apply.buffered_versions", 1);
            if applied {
                self.stat("apply.buffered_versions_with_impact", 1);
            }
            self.note(format!("apply n{node}: {}:v{v} impact={applied}", &actor.to_string()[..6]));
            self.trace_pk(node, "apply");
        }
        self.collect_hooks();
        Ok(())
    }

    pub async fn clear(&mut self, node: usize) -> Result<(), String> {
        let n = self.nodes[node].forward_clears().await;
        if n > 0 {
            self.stat("clear.forwarded", n);
            // wait (logically) for the real clear loop to have committed each request
            let key = self.nodes[node].actor().to_string();
            let want = self.nodes[node].clear_forwarded;
            let deadline = std::time::Instant::now() + std::time::Duration::from_secs(60);
            loop {
                self.tally.update();
                if self.tally.clear_commits.get(&key).copied().unwrap_or(0) >= want {
                    break;
                }
                if std::time::Instant::now() > deadline {
                    return Err("clear loop did not commit forwarded requests within 60s".into());
                }
                tokio::time::sleep(std::time::Duration::from_millis(2)).await;
            }
        }
        Ok(())
    }

    pub async fn sync(&mut self, client: usize, server: usize) -> Result<usize, String> {
        let (sa, saddr) = (self.nodes[server].actor(), self.nodes[server].gossip_addr);
        let mut last_err = String::new();
        for _attempt in 0..4 {
            match self.nodes[client].sync_from(sa, saddr).await {
                Ok(inbox) => {
                    self.stat("sync.sessions_ok", 1);
                    let n = inbox.len();
                    self.stat("sync.changesets_received", n as u64);
                    self.note(format!(
                        "sync n{client} <- n{server}: {:?}",
                        inbox.iter().map(|(c, _)| changeset_brief(c)).collect::<Vec<_>>()
                    ));
                    for (c, s) in inbox {
                        self.inflight[client].push(Msg { change: c, src: s });
                    }
                    return Ok(n);
                }
                Err(e) => {
                    self.stat("sync.sessions_failed_retried", 1);
                    last_err = e;
                    tokio::time::sleep(std::time::Duration::from_millis(50)).await;
                }
            }
        }
        Err(format!("sync session n{client} <- n{server} kept failing: {last_err}"))
    }

    pub async fn node_state(&self, i: usize) -> Result<String, String> {
        let conn = self.nodes[i].ro().map_err(|e| e.to_string())?;
        let t = tables_digest(&conn, &TABLES).map_err(|e| e.to_string())?;
        let b = book_digest(&conn).map_err(|e| e.to_string())?;
        let s = canon_sync_state(&self.nodes[i].sync_state().await);
        Ok(format!("{t:?}|{b:?}|{s}"))
    }
}

pub async fn apply_to_reference(reference: &Node, changes: &[Change]) -> Result<(), String> {
    let mut conn = reference.agent.pool().write_priority().await.map_err(|e| e.to_string())?;
    tokio::task::block_in_place(|| {
        let tx = conn.transaction().map_err(|e| e.to_string())?;
        for c in changes {
            tx.prepare_cached(
                r#"INSERT INTO crsql_changes ("table", pk, cid, val, col_version, db_version, site_id, cl, seq, ts) VALUES (?,?,?,?,?,?,?,?,?,?)"#,
            )
            .and_then(|mut p| {
                p.execute(rusqlite::params![
                    c.table.as_str(),
                    c.pk,
                    c.cid.as_str(),
                    &c.val,
                    c.col_version,
                    c.db_version,
                    &c.site_id,
                    c.cl,
                    c.seq,
                    Timestamp::zero(),
                ])
            })
            .map_err(|e| format!("reference insert: {e}"))?;
        }
        tx.commit().map_err(|e| e.to_string())
    })
}

/// split a Full changeset at a random seq boundary
pub fn rechunk(rng: &mut impl Rng, c: &ChangeV1) -> Option<(ChangeV1, ChangeV1)> {
    if let Changeset::Full {
        version,
        changes,
        seqs,
        last_seq,
        ts,
    } = &c.changeset
    {
        if seqs.end().0 <= seqs.start().0 {
            return None;
        }
        let cut = rng.random_range(seqs.start().0..seqs.end().0); // first part ends at cut
        let mk = |a: u64, b: u64| ChangeV1 {
            actor_id: c.actor_id,
            changeset: Changeset::Full {
                version: *version,
                changes: changes.iter().filter(|ch| ch.seq.0 >= a && ch.seq.0 <= b).cloned().collect(),
                seqs: klukai_types::base::CrsqlSeq(a)..=klukai_types::base::CrsqlSeq(b),
                last_seq: *last_seq,
                ts: *ts,
            },
        };
        Some((mk(seqs.start().0, cut), mk(cut + 1, seqs.end().0)))
    } else {
        None
    }
}

pub struct Verdict {
    pub violations: Vec<(String, Value)>,
    pub rounds: usize,
}

/// final phase: sync rounds over all ordered pairs until fixpoint, then the oracles
pub async fn settle_and_judge(ex: &mut Exec, rng: &mut impl Rng, drop_inflight: bool) -> Result<Verdict, String> {
    let n = ex.nodes.len();
    if drop_inflight {
        for q in ex.inflight.iter_mut() {
            let k = q.len() as u64;
            q.clear();
            *ex.stats.entry("msgs.dropped".into()).or_insert(0) += k;
            *ex.stats.entry("msgs.dropped_at_end".into()).or_insert(0) += k;
        }
    }
    let max_rounds = n + 3;
    let mut prev: Option<Vec<String>> = None;
    let mut stable = 0;
    let mut rounds = 0;
    while rounds < max_rounds + 2 {
        rounds += 1;
        let mut pairs: Vec<(usize, usize)> = (0..n).flat_map(|a| (0..n).filter(move |b| *b != a).map(move |b| (a, b))).collect();
        pairs.shuffle(rng);
        for (c, s) in pairs {
            ex.sync(c, s).await?;
            // deliver what arrived, in random batches
            let mut q: Vec<Msg> = std::mem::take(&mut ex.inflight[c]);
            q.shuffle(rng);
            while !q.is_empty() {
                let k = rng.random_range(1..=8usize).min(q.len());
                let batch: Vec<Msg> = q.drain(..k).collect();
                ex.deliver(c, batch).await?;
            }
            ex.apply(c).await?;
            ex.clear(c).await?;
        }
        let mut cur = vec![];
        for i in 0..n {
            cur.push(ex.node_state(i).await?);
        }
        if prev.as_ref() == Some(&cur) {
            stable += 1;
            if stable >= 1 {
                break;
            }
        } else {
            stable = 0;
        }
        prev = Some(cur);
    }
    ex.stat("sync.rounds", rounds as u64);

    let mut violations = vec![];
    // digests
    let mut tables = vec![];
    let mut cells = vec![];
    let mut states = vec![];
    for i in 0..n {
        let conn = ex.nodes[i].ro().map_err(|e| e.to_string())?;
        tables.push(tables_digest(&conn, &TABLES).map_err(|e| e.to_string())?);
        cells.push(cells_digest(&conn).map_err(|e| e.to_string())?);
        states.push(ex.nodes[i].sync_state().await);
    }
    let rconn = ex.reference.ro().map_err(|e| e.to_string())?;
    let rtables = tables_digest(&rconn, &TABLES).map_err(|e| e.to_string())?;
    let rcells = cells_digest(&rconn).map_err(|e| e.to_string())?;

    let still_moving = rounds >= max_rounds + 2;
    if still_moving {
        return Err(format!("no fixpoint after {rounds} sync rounds (still progressing)"));
    }

    let ctx = |ex: &Exec| {
        json!({
            "nodes": n,
            "sync_states": states.iter().map(render_sync_state).collect::<Vec<_>>(),
            "history_and_schedule": ex.log,
        })
    };
    // which versions have changes sharing a seq anywhere in the cluster (see F15)
    let mut dupseq = std::collections::BTreeSet::new();
    for i in 0..n {
        let conn = ex.nodes[i].ro().map_err(|e| e.to_string())?;
        dupseq.extend(super::versions_with_duplicate_seq(&conn).map_err(|e| e.to_string())?);
    }
    let rext = super::cells_ext_digest(&rconn).map_err(|e| e.to_string())?;
    let mut first_ctx_used = false;
    for i in 0..n {
        if cells[i] == rcells && tables[i] == rtables {
            continue;
        }
        // every differing cell: is the reference's winning change part of a duplicate-seq version?
        let mut diffs: Vec<String> = vec![];
        let mut all_explained = true;
        let keys: std::collections::BTreeSet<_> = cells[i].keys().chain(rcells.keys()).cloned().collect();
        for k in keys {
            let a = cells[i].get(&k);
            let b = rcells.get(&k);
            if a == b {
                continue;
            }
            let origin = rext.get(&k).map(|e| (e.3.clone(), e.4));
            let explained = origin.as_ref().map(|o| dupseq.contains(o)).unwrap_or(false);
            if !explained {
                all_explained = false;
            }
            if diffs.len() < 8 {
                diffs.push(format!("{k:?}: node={a:?} reference={b:?} origin(site,db_version)={origin:?} shares_seq={explained}"));
            }
        }
        if diffs.is_empty() {
            // tables differ although cells agree
            all_explained = false;
            diffs = diff_tables(&tables[i], &rtables);
        }
        let sig = if all_explained {
            "convergence/change-sharing-a-seq-with-resurrection-sentinel-not-relayed"
        } else if tables[i] != rtables {
            "convergence/tables-differ-from-reference-merge"
        } else {
            "convergence/cell-versions-differ-from-reference-merge"
        };
        violations.push((
            sig.to_string(),
            json!({"node": i, "diff": diffs, "table_diff": diff_tables(&tables[i], &rtables), "duplicate_seq_versions": dupseq.iter().map(|(s, v)| format!("{}:v{v}", &s[..6])).collect::<Vec<_>>(), "ctx": if !first_ctx_used { ctx(ex) } else { json!("see first violation") }}),
        ));
        first_ctx_used = true;
        break;
    }
    if violations.is_empty() {
        for i in 1..n {
            if tables[i] != tables[0] || cells[i] != cells[0] {
                violations.push((
                    "convergence/nodes-differ-from-each-other".to_string(),
                    json!({"nodes": [0, i], "diff": diff_tables(&tables[0], &tables[i]), "ctx": ctx(ex)}),
                ));
                break;
            }
        }
    }
    // provenance
    for i in 0..n {
        let conn = ex.nodes[i].ro().map_err(|e| e.to_string())?;
        if let Some(bad) = provenance_violation(&conn, &ex.prov).map_err(|e| e.to_string())? {
            violations.push((
                "provenance/value-no-acknowledged-transaction-produced".to_string(),
                json!({"node": i, "value": bad, "ctx": if violations.is_empty() { ctx(ex) } else { json!("see first violation") }}),
            ));
            break;
        }
    }
    for p in ex.panics.iter() {
        let sig = if p.contains("but seqs range is") {
            "ingest/debug-assertion-on-changeset-with-changes-sharing-a-seq".to_string()
        } else {
            let digits_out: String = p.chars().map(|c| if c.is_ascii_digit() { '#' } else { c }).collect();
            format!("ingest/panic:{}", crate::common::truncate(&digits_out, 80))
        };
        violations.push((sig, json!({"panic": p, "ctx": ctx(ex)})));
    }
    // recorded: residual need/partial_need, heads equal
    let residual = states.iter().any(|s| !s.need.is_empty() || !s.partial_need.is_empty());
    if residual {
        ex.stat("exec.residual_need_or_partial_after_fixpoint", 1);
    }
    if violations.is_empty() {
        ex.stat("exec.converged", 1);
    }
    Ok(Verdict { violations, rounds })
}

fn diff_tables(a: &super::TablesDigest, b: &super::TablesDigest) -> Vec<String> {
    let mut out = vec![];
    for (t, ra) in a {
        let rb = b.get(t).cloned().unwrap_or_default();
        for r in ra {
            if !rb.contains(r) {
                out.push(format!("{t}: only left {r:?}"));
            }
        }
        for r in rb.iter() {
            if !ra.contains(r) {
                out.push(format!("{t}: only right {r:?}"));
            }
        }
    }
    out.truncate(12);
    out
}

pub fn provenance_violation(conn: &rusqlite::Connection, prov: &Provenance) -> rusqlite::Result<Option<String>> {
    let cols: [(&str, &[&str], &[&str]); 3] = [("t1", &["a", "c"], &["b"]), ("t2", &["v"], &["n"]), ("t3", &["tag", "payload"], &[])];
    for (t, texts, ints) in cols {
        for c in texts {
            let mut st = conn.prepare(&format!("SELECT {c} FROM {t} WHERE {c} IS NOT NULL AND {c} != ''"))?;
            let mut rows = st.query([])?;
            while let Some(r) = rows.next()? {
                let v: String = r.get(0)?;
                if !prov.texts.contains(&v) {
                    return Ok(Some(format!("{t}.{c} = {:?}", crate::common::truncate(&v, 80))));
                }
            }
        }
        for c in ints {
            let mut st = conn.prepare(&format!("SELECT {c} FROM {t} WHERE {c} != 0"))?;
            let mut rows = st.query([])?;
            while let Some(r) = rows.next()? {
                let v: i64 = r.get(0)?;
                if !prov.ints.contains(&v) {
                    return Ok(Some(format!("{t}.{c} = {v}")));
                }
            }
        }
    }
    Ok(None)
}

/// one whole execution; Err = inconclusive (harness trouble)
pub async fn one_execution(seed: u64, big_ok: bool, stats_out: &mut BTreeMap<String, u64>) -> Result<(Verdict, String, bool, Vec<String>), String> {
    use rand::SeedableRng;
    let mut rng = rand::rngs::StdRng::seed_from_u64(seed);
    let n = *crate::common::pick(&mut rng, &[2usize, 3, 3, 4]);
    let mut ex = Exec::new(n).await.map_err(|e| format!("setup: {e}"))?;
    let n_tx = rng.random_range(5..=30usize);
    let p_dup = rng.random_range(0..300u32);
    let p_drop = *crate::common::pick(&mut rng, &[0u32, 50, 150, 400]);
    let p_rechunk = rng.random_range(0..300u32);
    let mut tx_done = 0;
    let mut steps = 0;
    let mut relay_done = false;
    while (tx_done < n_tx || ex.inflight.iter().any(|q| !q.is_empty())) && steps < 2000 {
        steps += 1;
        let r = rng.random_range(0..100);
        if r < 25 && tx_done < n_tx {
            let node = rng.random_range(0..n);
            ex.do_tx(node, &mut rng, big_ok).await?;
            tx_done += 1;
        } else if r < 70 {
            let node = rng.random_range(0..n);
            if ex.inflight[node].is_empty() {
                continue;
            }
            let k = rng.random_range(1..=8usize).min(ex.inflight[node].len());
            let mut batch = vec![];
            for _ in 0..k {
                if ex.inflight[node].is_empty() {
                    break;
                }
                let i = rng.random_range(0..ex.inflight[node].len());
                let m = ex.inflight[node].swap_remove(i);
                if chance(&mut rng, p_drop) {
                    ex.stat("msgs.dropped", 1);
                    continue;
                }
                if chance(&mut rng, p_rechunk)
                    && let Some((a, b)) = rechunk(&mut rng, &m.change)
                {
                    ex.stat("msgs.rechunked", 1);
                    // one half now, the other stays in flight
                    ex.inflight[node].push(Msg { change: b, src: m.src });
                    batch.push(Msg { change: a, src: m.src });
                    continue;
                }
                if chance(&mut rng, p_dup) {
                    ex.stat("msgs.duplicated", 1);
                    ex.inflight[node].push(Msg {
                        change: m.change.clone(),
                        src: m.src,
                    });
                }
                batch.push(m);
            }
            ex.deliver(node, batch).await?;
        } else if r < 82 {
            let node = rng.random_range(0..n);
            ex.apply(node).await?;
        } else if r < 88 {
            let node = rng.random_range(0..n);
            ex.clear(node).await?;
        } else if r < 92 && !relay_done && n >= 3 {
            // a mid-run sync session (relay supplies what the origin's broadcast lost)
            let c = rng.random_range(0..n);
            let s = (c + 1 + rng.random_range(0..n - 1)) % n;
            ex.sync(c, s).await?;
            relay_done = rng.random_range(0..3) == 0;
        } else if tx_done >= n_tx {
            // drain faster at the end
            let node = rng.random_range(0..n);
            if chance(&mut rng, 300) {
                let k = ex.inflight[node].len() as u64;
                ex.inflight[node].clear();
                ex.stat("msgs.dropped", k);
            }
        }
    }
    let verdict = settle_and_judge(&mut ex, &mut rng, true).await?;

    // non-vacuity facts for this execution
    let mut writers: BTreeMap<(String, Vec<u8>, String), std::collections::BTreeSet<usize>> = BTreeMap::new();
    for a in ex.acked.iter() {
        for c in a.changes.iter() {
            writers.entry((c.table.to_string(), c.pk.clone(), c.cid.to_string())).or_default().insert(a.node);
        }
    }
    let conflict = writers.values().any(|w| w.len() >= 2);
    if conflict {
        ex.stat("exec.with_cell_written_by_2plus_nodes", 1);
    }
    let buffered = ex.stats.get("apply.buffered_versions").copied().unwrap_or(0) > 0;
    if buffered {
        ex.stat("exec.with_buffered_apply", 1);
    }
    let synced = ex.stats.get("sync.changesets_received").copied().unwrap_or(0) > 0;
    if synced {
        ex.stat("exec.with_sync_recovery", 1);
    }
    let nontrivial = conflict || buffered || synced;
    let h = format!("{:?}", ex.log);
    for (k, v) in ex.stats.iter() {
        *stats_out.entry(k.clone()).or_insert(0) += *v;
    }
    let log = ex.log.clone();
    // shut nodes down
    let Exec { nodes, reference, .. } = ex;
    for nd in nodes {
        drop(nd.shutdown().await);
    }
    drop(reference.shutdown().await);
    Ok((verdict, h, nontrivial, log))
}

fn run(ctx: &mut Ctx) {
    std::panic::set_hook(Box::new(|_| {}));
    let rt = tokio::runtime::Builder::new_multi_thread().worker_threads(3).enable_all().build().unwrap();
    klukai_types::verif::set_record(true);
    let target = ctx.tier.pick(400u64, 100_000u64);
    let mut i = 0u64;
    // `--exec-seed N`: replay exactly one execution
    let only: Option<u64> = ctx.extra.iter().position(|a| a == "--exec-seed").and_then(|p| ctx.extra.get(p + 1)).and_then(|s| s.parse().ok());
    while i < target && ctx.time_left() {
        i += 1;
        let mut seed = ctx.seed.wrapping_mul(1_000_003).wrapping_add((ctx.worker as u64) << 40).wrapping_add(i);
        if let Some(o) = only {
            if i > 1 || ctx.worker != 0 {
                break;
            }
            seed = o;
        }
        let mut stats = BTreeMap::new();
        let big_ok = match std::env::var("VH_BIG_OK").ok().as_deref() { Some("1") => true, Some("0") => false, _ => seed % 3 != 0 };
        let res = rt.block_on(async { tokio::time::timeout(std::time::Duration::from_secs(300), one_execution(seed, big_ok, &mut stats)).await });
        for (k, v) in stats {
            ctx.stat(&k, v);
        }
        match res {
            Err(_) => ctx.inconclusive(format!("execution seed {seed} exceeded the 300s watchdog")),
            Ok(Err(e)) => ctx.inconclusive(format!("execution seed {seed}: {e}")),
            Ok(Ok((verdict, h, nontrivial, log))) => {
                ctx.exec(hash_str(&h), nontrivial);
                ctx.stat_max("sync.rounds_to_fixpoint", verdict.rounds as u64);
                for (sig, mut d) in verdict.violations {
                    d["exec_seed"] = json!(seed);
                    ctx.violation(sig, d);
                }
                if nontrivial && log.len() > 10 {
                    ctx.sample(|| json!({"exec_seed": seed, "history_and_schedule": log.iter().take(40).collect::<Vec<_>>()}));
                }
            }
        }
    }
}
