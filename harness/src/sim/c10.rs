//! C10 — load shedding and duplicate suppression never lose a change for good.
//!
//! One real node runs the real `handle_changes` loop on its changes channel with
//! small queue settings; the harness overloads it (by holding the single write
//! connection), then re-offers what is not held, the way sync does every round.

use std::{
    collections::BTreeMap,
    time::{Duration, Instant},
};

use klukai_types::{
    actor::ActorId,
    api::{ColumnName, SqliteValue, TableName},
    base::{CrsqlDbVersion, CrsqlSeq},
    broadcast::{ChangeSource, ChangeV1, Changeset, Timestamp},
    change::Change,
    pubsub::pack_columns,
    verif::{HC_DROPPED, HC_INFLIGHT, HC_QUEUE, HC_RECV, HC_SYNCED},
};
use rand::{Rng, seq::SliceRandom};
use serde_json::{Value, json};
use uuid::Uuid;

use super::{HookTally, Node, NodeOpts, new_node};
use crate::{
    Check,
    common::{CheckSpec, Ctx, chance, hash_str},
};

pub fn check() -> Check {
    Check {
        spec: CheckSpec {
            prop: "C10",
            level: "exploration",
            rule: "execution = one real node running the real handle_changes loop with processing_queue_len in 1..64, apply_queue_len in 1..50 and a short batching interval; traffic from 1-4 actors: complete versions, versions cut into 2-12 chunks, cleared versions announced as empty changesets, exact duplicates, and in 30% of the executions very few distinct versions (one version in 20-40 chunks plus 1-3 cleared versions of another actor), interleaved actors, offered while the harness holds the write connection for seeded intervals so the queue overflows; then re-offer rounds (everything not held, random order) with logical idleness between rounds (hook gauges: received == sent, queue empty, nothing in flight, apply triggers drained); then re-offer rounds in which every version not fully held is offered again as its original chunks, as one complete changeset or freshly cut (other suppliers cut differently); oracle: a version still not fully held after 3 idle re-offer rounds is lost for good; whenever bookkeeping claims a version/seq range the rows are in the table or the buffer; non-trivial = execution in which at least one changeset was dropped by the full queue; distinct by hash of the configuration+traffic",
            assumptions: &[
                "bounded restatement of 'after finitely many offers': 3 idle re-offer rounds after the overload ended",
                "one handle_changes loop per process (the hook gauges are process-wide)",
            ],
            min_nontrivial: 10,
            required_stats: &["offers", "dropped_by_full_queue", "reoffer_rounds", "multi_actor_executions", "multi_chunk_versions", "cleared_versions_offered", "few_versions_executions"],
        },
        budget: (60, 900),
        workers: (12, 14),
        run,
    }
}

fn fake_actor(i: u8) -> ActorId {
    let mut b = [0xA0u8; 16];
    b[15] = i;
    ActorId(Uuid::from_bytes(b))
}

struct Item {
    change: ChangeV1,
    /// rows (ids) this changeset carries
    ids: Vec<i64>,
}

fn mk_version(actor_idx: u8, version: u64, k: usize, chunks: usize) -> Vec<Item> {
    let actor = fake_actor(actor_idx);
    let changes: Vec<Change> = (0..k)
        .map(|i| Change {
            table: TableName("t3".into()),
            pk: pack_columns(&[SqliteValue::Integer(actor_idx as i64 * 1_000_000 + version as i64 * 1000 + i as i64)]).unwrap(),
            cid: ColumnName("payload".into()),
            val: SqliteValue::Text(format!("a{actor_idx}v{version}c{i}").into()),
            col_version: 1,
            db_version: CrsqlDbVersion(version),
            seq: CrsqlSeq(i as u64),
            site_id: actor.to_bytes(),
            cl: 1,
        })
        .collect();
    let last = (k - 1) as u64;
    let chunks = chunks.min(k).max(1);
    let per = k.div_ceil(chunks);
    let mut out = vec![];
    let mut start = 0usize;
    let _ = &changes;
    while start < k {
        let end = (start + per).min(k) - 1;
        out.push(Item {
            change: ChangeV1 {
                actor_id: actor,
                changeset: Changeset::Full {
                    version: CrsqlDbVersion(version),
                    changes: changes[start..=end].to_vec(),
                    seqs: CrsqlSeq(start as u64)..=CrsqlSeq(end as u64),
                    last_seq: CrsqlSeq(last),
                    ts: Timestamp::from((version << 32) + actor_idx as u64 + 1),
                },
            },
            ids: (start..=end).map(|i| actor_idx as i64 * 1_000_000 + version as i64 * 1000 + i as i64).collect(),
        });
        start = end + 1;
    }
    out
}

/// a changeset of `actor_idx`/`version` (k changes) covering seqs a..=b
fn cut(actor_idx: u8, version: u64, k: usize, a: usize, b: usize) -> Item {
    let all = mk_version(actor_idx, version, k, 1);
    let full = &all[0];
    let Changeset::Full { changes, last_seq, ts, .. } = &full.change.changeset else { unreachable!() };
    Item {
        change: ChangeV1 {
            actor_id: full.change.actor_id,
            changeset: Changeset::Full {
                version: CrsqlDbVersion(version),
                changes: changes[a..=b].to_vec(),
                seqs: CrsqlSeq(a as u64)..=CrsqlSeq(b as u64),
                last_seq: *last_seq,
                ts: *ts,
            },
        },
        ids: full.ids[a..=b].to_vec(),
    }
}

/// the origin cleared this version: it is announced as an empty changeset
fn empty_item(actor_idx: u8, version: u64) -> Item {
    Item {
        change: ChangeV1 {
            actor_id: fake_actor(actor_idx),
            changeset: Changeset::Empty {
                versions: CrsqlDbVersion(version)..=CrsqlDbVersion(version),
                ts: Some(Timestamp::from((version << 32) + actor_idx as u64 + 1)),
            },
        },
        ids: vec![],
    }
}

async fn held(node: &Node, c: &ChangeV1) -> bool {
    let booked = { node.bookie.read::<&str, _>("verif", None).await.get(&c.actor_id).cloned() };
    match booked {
        Some(b) => b.read::<&str, _>("verif", None).await.contains_all(c.versions(), c.seqs()),
        None => false,
    }
}

/// wait until the ingest loop has seen everything we sent and nothing is queued or in flight
async fn wait_idle(node: &mut Node, sent: i64, tally: &mut HookTally, pending: &mut u64) -> Result<(), String> {
    let deadline = Instant::now() + Duration::from_secs(120);
    let mut stable = 0;
    loop {
        // drain apply triggers announced by the hook
        tally.update();
        if let Some(c) = tally.apply_triggers.remove(&node.actor().to_string()) {
            *pending += c;
        }
        if *pending > 0 {
            node.drain_apply(pending).await?;
        }
        let idle = HC_SYNCED.get() == sent && HC_RECV.get() == sent && HC_QUEUE.get() == 0 && HC_INFLIGHT.get() == 0;
        if idle {
            stable += 1;
            // the gauges are refreshed at the top of the loop; see them idle twice across a tick
            if stable >= 3 {
                tally.update();
                if let Some(c) = tally.apply_triggers.remove(&node.actor().to_string()) {
                    *pending += c;
                }
                if *pending == 0 {
                    return Ok(());
                }
            }
        } else {
            stable = 0;
        }
        if Instant::now() > deadline {
            return Err(format!(
                "ingest loop not idle after 120s: sent={sent} recv={} synced={} queue={} inflight={}",
                HC_RECV.get(),
                HC_SYNCED.get(),
                HC_QUEUE.get(),
                HC_INFLIGHT.get()
            ));
        }
        tokio::time::sleep(Duration::from_millis(3)).await;
    }
}

pub async fn one_execution(seed: u64, stats: &mut BTreeMap<String, u64>) -> Result<(Vec<(String, Value)>, String, bool), String> {
    use rand::SeedableRng;
    let mut rng = rand::rngs::StdRng::seed_from_u64(seed);
    let few_versions = chance(&mut rng, 300);
    let qlen = if few_versions { *crate::common::pick(&mut rng, &[2usize, 3, 5]) } else { *crate::common::pick(&mut rng, &[1usize, 2, 3, 5, 8, 20, 64]) };
    let alen = *crate::common::pick(&mut rng, &[1usize, 2, 5, 20, 50]);
    let tick = *crate::common::pick(&mut rng, &[1usize, 3, 10]);
    let mut node = new_node(
        0,
        NodeOpts {
            run_handle_changes: true,
            perf: Some(Box::new(move |p| {
                p.processing_queue_len = qlen;
                p.apply_queue_len = alen;
                p.apply_queue_timeout = tick;
            })),
            ..Default::default()
        },
    )
    .await
    .map_err(|e| e.to_string())?;
    // process-wide gauges: start from the loop's current counters
    let base = HC_RECV.get();
    let dropped_base = HC_DROPPED.get();
    let mut tally = HookTally::default();
    let mut pending = 0u64;

    let mut n_actors = rng.random_range(1..=4u8);
    let mut items: Vec<Item> = vec![];
    let mut versions_meta: Vec<(u8, u64, usize)> = vec![]; // (actor idx, version, k); k == 0: cleared version
    let mut multi_chunk = 0;
    if few_versions {
        // very few distinct (actor, version) keys in flight: one version in many chunks and a
        // couple of cleared versions of another actor (the loop's duplicate cache is never
        // trimmed by such traffic)
        n_actors = 2;
        let k = 40usize;
        items.extend(mk_version(1, 1, k, rng.random_range(20..=40)));
        versions_meta.push((1, 1, k));
        multi_chunk += 1;
        for v in 1..=rng.random_range(1..=3u64) {
            items.push(empty_item(2, v));
            versions_meta.push((2, v, 0));
            *stats.entry("cleared_versions_offered".into()).or_insert(0) += 1;
        }
        *stats.entry("few_versions_executions".into()).or_insert(0) += 1;
    } else {
        for a in 0..n_actors {
            let versions = rng.random_range(1..=6u64);
            for v in 1..=versions {
                if chance(&mut rng, 120) {
                    items.push(empty_item(a + 1, v));
                    versions_meta.push((a + 1, v, 0));
                    *stats.entry("cleared_versions_offered".into()).or_insert(0) += 1;
                    continue;
                }
                let k = *crate::common::pick(&mut rng, &[1usize, 2, 4, 12, 30]);
                let chunks = if k > 1 && chance(&mut rng, 500) { rng.random_range(2..=12) } else { 1 };
                if chunks > 1 {
                    multi_chunk += 1;
                }
                items.extend(mk_version(a + 1, v, k, chunks));
                versions_meta.push((a + 1, v, k));
            }
        }
    }
    *stats.entry("multi_chunk_versions".into()).or_insert(0) += multi_chunk;
    if n_actors > 1 {
        *stats.entry("multi_actor_executions".into()).or_insert(0) += 1;
    }
    let mut order: Vec<usize> = (0..items.len()).collect();
    order.shuffle(&mut rng);
    // duplicates
    let dups: Vec<usize> = order.iter().filter(|_| chance(&mut rng, 150)).cloned().collect();
    order.extend(dups);
    if chance(&mut rng, 500) {
        order.shuffle(&mut rng);
    }
    let log_head = format!("q={qlen} a={alen} tick={tick}ms actors={n_actors} changesets={} offers={}", items.len(), order.len());

    // ---- phase 1: offer everything while the database is busy for seeded intervals
    let mut sent = base;
    let tx = node.agent.tx_changes().clone();
    let mut i = 0;
    while i < order.len() {
        let hold = chance(&mut rng, 600);
        let burst = rng.random_range(1..=order.len().min(40));
        let guard = if hold { Some(node.agent.pool().write_normal().await.map_err(|e| e.to_string())?) } else { None };
        for _ in 0..burst {
            if i >= order.len() {
                break;
            }
            let it = &items[order[i]];
            let src = if chance(&mut rng, 500) { ChangeSource::Broadcast } else { ChangeSource::Sync };
            tx.send((it.change.clone(), src)).await.map_err(|e| e.to_string())?;
            sent += 1;
            i += 1;
            *stats.entry("offers".into()).or_insert(0) += 1;
            if chance(&mut rng, 200) {
                tokio::time::sleep(Duration::from_millis(rng.random_range(1..=(tick as u64 * 2)))).await;
            }
        }
        if hold {
            // let the loop spin against the busy database
            tokio::time::sleep(Duration::from_millis(rng.random_range(2..=(tick as u64 * 4 + 5)))).await;
        }
        drop(guard);
    }
    wait_idle(&mut node, sent, &mut tally, &mut pending).await?;
    let dropped = (HC_DROPPED.get() - dropped_base).max(0) as u64;
    *stats.entry("dropped_by_full_queue".into()).or_insert(0) += dropped;
    let nontrivial = dropped > 0;

    // ---- phase 2: re-offer rounds. Each round offers, for every version not fully held, a set of
    // changesets covering it: the original chunks that are not held, or the complete changeset, or a
    // fresh cut (other suppliers cut the same version differently).
    let mut violations = vec![];
    let mut rounds = 0;
    let mut not_held: Vec<usize> = vec![];
    let mut strategies_used: Vec<String> = vec![];
    for r in 0..4 {
        not_held.clear();
        for (idx, (ai, v, k)) in versions_meta.iter().enumerate() {
            let complete = if *k == 0 { empty_item(*ai, *v) } else { cut(*ai, *v, *k, 0, *k - 1) };
            if !held(&node, &complete.change).await {
                not_held.push(idx);
            }
        }
        if not_held.is_empty() || r == 3 {
            break;
        }
        rounds += 1;
        *stats.entry("reoffer_rounds".into()).or_insert(0) += 1;
        not_held.shuffle(&mut rng);
        for idx in not_held.iter() {
            let (ai, v, k) = versions_meta[*idx];
            let strategy = if k == 0 { 9 } else { rng.random_range(0..3) };
            let mut offers: Vec<ChangeV1> = vec![];
            match strategy {
                9 => {
                    // a cleared version is announced again as it is
                    offers.push(empty_item(ai, v).change);
                    *stats.entry("reoffer.cleared_version".into()).or_insert(0) += 1;
                }
                0 => {
                    // the original chunks that are not held
                    for it in items.iter() {
                        if it.change.actor_id == fake_actor(ai) && it.change.versions().start().0 == v && !held(&node, &it.change).await {
                            offers.push(it.change.clone());
                        }
                    }
                    *stats.entry("reoffer.same_chunks".into()).or_insert(0) += 1;
                }
                1 => {
                    offers.push(cut(ai, v, k, 0, k - 1).change);
                    *stats.entry("reoffer.complete_changeset".into()).or_insert(0) += 1;
                }
                _ => {
                    // fresh cut into 1-3 pieces
                    let mut cuts: Vec<usize> = (0..rng.random_range(0..=2usize)).map(|_| rng.random_range(0..k)).collect();
                    cuts.sort();
                    cuts.dedup();
                    let mut a = 0usize;
                    for c in cuts {
                        if c + 1 < k && c >= a {
                            offers.push(cut(ai, v, k, a, c).change);
                            a = c + 1;
                        }
                    }
                    offers.push(cut(ai, v, k, a, k - 1).change);
                    *stats.entry("reoffer.fresh_cut".into()).or_insert(0) += 1;
                }
            }
            if strategies_used.len() < 12 {
                strategies_used.push(format!("round {rounds}: a{ai} v{v}: strategy {strategy} -> {:?}", offers.iter().map(super::changeset_brief).collect::<Vec<_>>()));
            }
            *stats.entry("reoffered_changesets".into()).or_insert(0) += offers.len() as u64;
            for c in offers {
                tx.send((c, ChangeSource::Sync)).await.map_err(|e| e.to_string())?;
                sent += 1;
                // slow enough not to overflow again: the overload has ended
                if qlen < 64 {
                    wait_idle(&mut node, sent, &mut tally, &mut pending).await?;
                }
            }
        }
        wait_idle(&mut node, sent, &mut tally, &mut pending).await?;
    }
    *stats.entry(format!("rounds_needed.{rounds}")).or_insert(0) += 1;
    if !not_held.is_empty() {
        violations.push((
            "lost/version-not-accepted-after-3-idle-reoffer-rounds".into(),
            json!({
                "config": log_head,
                "dropped_by_full_queue": dropped,
                "still_not_fully_held": not_held.iter().take(10).map(|i| format!("a{} v{} ({} changes)", versions_meta[*i].0, versions_meta[*i].1, versions_meta[*i].2)).collect::<Vec<_>>(),
                "reoffers": strategies_used,
                "actors_in_traffic": n_actors,
            }),
        ));
    }

    // ---- safety half: what bookkeeping claims is really stored
    {
        let conn = node.ro().map_err(|e| e.to_string())?;
        for it in items.iter() {
            if held(&node, &it.change).await {
                for id in it.ids.iter() {
                    let in_table: bool = conn.query_row("SELECT EXISTS(SELECT 1 FROM t3 WHERE id = ?)", [id], |r| r.get(0)).map_err(|e| e.to_string())?;
                    let in_buffer: bool = conn
                        .query_row(
                            "SELECT EXISTS(SELECT 1 FROM __corro_buffered_changes WHERE site_id = ? AND db_version = ? AND pk = ?)",
                            rusqlite::params![it.change.actor_id, it.change.versions().start().0, pack_columns(&[SqliteValue::Integer(*id)]).unwrap()],
                            |r| r.get(0),
                        )
                        .map_err(|e| e.to_string())?;
                    if !in_table && !in_buffer {
                        violations.push((
                            "claimed/bookkeeping-claims-a-change-that-is-neither-applied-nor-buffered".into(),
                            json!({"config": log_head, "changeset": super::changeset_brief(&it.change), "row_id": id}),
                        ));
                        break;
                    }
                }
            }
        }
    }
    let h = format!("{log_head} {:?}", order);
    drop(node.shutdown().await);
    // let the loop of this node wind down before the next execution reads the gauges
    tokio::time::sleep(Duration::from_millis(20)).await;
    Ok((violations, h, nontrivial))
}

fn run(ctx: &mut Ctx) {
    std::panic::set_hook(Box::new(|_| {}));
    let rt = tokio::runtime::Builder::new_multi_thread().worker_threads(4).enable_all().build().unwrap();
    klukai_types::verif::set_record(true);
    let target = ctx.tier.pick(300u64, 100_000u64);
    let only: Option<u64> = ctx.extra.iter().position(|a| a == "--exec-seed").and_then(|p| ctx.extra.get(p + 1)).and_then(|s| s.parse().ok());
    let mut i = 0u64;
    while i < target && ctx.time_left() {
        i += 1;
        let mut seed = ctx.seed.wrapping_mul(1_000_003).wrapping_add((ctx.worker as u64) << 40).wrapping_add(i);
        if let Some(o) = only {
            if i > 1 || ctx.worker != 0 {
                break;
            }
            seed = o;
        }
        let mut stats = BTreeMap::new();
        let res = rt.block_on(async { tokio::time::timeout(Duration::from_secs(400), one_execution(seed, &mut stats)).await });
        for (k, v) in stats {
            ctx.stat(&k, v);
        }
        match res {
            Err(_) => ctx.inconclusive(format!("execution seed {seed} exceeded the 400s watchdog")),
            Ok(Err(e)) => ctx.inconclusive(format!("execution seed {seed}: {e}")),
            Ok(Ok((violations, h, nontrivial))) => {
                ctx.exec(hash_str(&h), nontrivial);
                for (sig, mut d) in violations {
                    d["exec_seed"] = json!(seed);
                    ctx.violation(sig, d);
                }
                if nontrivial {
                    ctx.sample(|| json!({"exec_seed": seed, "execution": h.chars().take(300).collect::<String>()}));
                }
            }
        }
    }
}
