//! C14 — row-level update notifications reflect every changed key and its final fate.
//!
//! Real node, real `api_v1_updates` listeners (one per table), the same histories as
//! C11 (local transactions; changesets of a second real node delivered complete, cut
//! into chunks, late and out of order). Per operation the monitor records which keys'
//! rows really changed (table snapshot before/after); at logical quiescence of the
//! feed's batching task (hook log) it reads the notifications the hook announced and
//! checks: every changed key was notified, the last notification of every key agrees
//! with the key's existence, and the causal lengths behind the notifications delivered
//! for one key never go backwards.

use std::{
    collections::{BTreeMap, BTreeSet},
    time::Duration,
};

use klukai_types::{
    api::{SqliteParam, Statement, sqlite::ChangeType},
    broadcast::ChangeV1,
};
use rand::{Rng, SeedableRng, seq::SliceRandom};
use serde_json::{Value, json};

use super::{
    NodeOpts,
    c01::rechunk,
    new_node,
    subs::{self, ExecOut, Pump, SUB_SCHEMA, SubsCtx, TxInfo, UpdConn},
};
use crate::{
    Check,
    common::{CheckSpec, Ctx},
};

pub fn check() -> Check {
    Check {
        spec: CheckSpec {
            prop: "C14",
            level: "exploration",
            rule: "execution = one real node with update-feed listeners on 1-3 tables attached after some initial data + a history of 10-30 operations over few keys (6 parents x 4 child keys x 4 groups): local transactions (upserts, column updates, deletes, re-inserts, key changes, several statements on the same key), bursts of 2-5 transactions on one or two keys whose broadcasts are delayed at a hook so that they overtake each other on the way to the feed, in a quarter of the executions with the feed's bounded causal-length cache (2000 keys, cut to 1000) filled to just under its bound beforehand (burst keys entered first or last) and transactions bringing 8-25 new keys inside the burst so that the cut happens between the notifications of one key, changesets authored by a second real node delivered complete / cut into chunks (buffered) / late / out of order / several versions per ingest call (so deletes arrive before the inserts they supersede and stale changes arrive after newer local ones); after an operation (p=0.5) and at the end: logical quiescence of the feed task (hook log), read exactly the notifications the upd.notify hook announced, then (1) every key whose row differs between the snapshots taken around an operation since the last checkpoint has a notification in that interval, (2) for every key notified so far the last notification says delete iff the row is absent now, (3) causal lengths of the notifications delivered for one key are non-decreasing; non-trivial = execution with notifications of both kinds and >= 3 checkpoints; distinct by hash of the history",
            assumptions: &[
                "the feed carries no causal length: clause 3 is observed through the upd.notify hook placed where the notification is handed to the listener channel",
                "the bounded cache (2000 keys) is not rolled over by this key domain; cache eviction is exercised only by the thorough tier's wide-key executions",
            ],
            min_nontrivial: 10,
            required_stats: &["listeners", "checkpoints", "notifications", "update_notifications", "delete_notifications", "changed_keys_checked", "fate_checks", "remote_complete", "remote_buffered", "local_bursts", "bursts_pushing_the_cache_past_its_bound"],
        },
        budget: (70, 900),
        workers: (12, 14),
        run,
    }
}

type Snap = BTreeMap<String, BTreeMap<String, String>>; // table -> pk key -> row

fn pk_cols(table: &str) -> usize {
    match table {
        "c" => 2,
        _ => 1,
    }
}

fn snapshot(conn: &rusqlite::Connection) -> Result<Snap, String> {
    let mut out = Snap::new();
    for t in ["p", "c", "g"] {
        let mut st = conn.prepare(&format!("SELECT * FROM {t}")).map_err(|e| e.to_string())?;
        let n = st.column_count();
        let mut rows = st.query([]).map_err(|e| e.to_string())?;
        let mut m = BTreeMap::new();
        while let Some(r) = rows.next().map_err(|e| e.to_string())? {
            let cells: Vec<klukai_types::api::SqliteValue> = (0..n).map(|i| r.get(i)).collect::<rusqlite::Result<_>>().map_err(|e| e.to_string())?;
            m.insert(subs::cells_key(&cells[..pk_cols(t)]), subs::cells_key(&cells));
        }
        out.insert(t.to_string(), m);
    }
    Ok(out)
}

fn changed_keys(a: &Snap, b: &Snap, table: &str) -> BTreeSet<String> {
    let (ea, eb) = (BTreeMap::new(), BTreeMap::new());
    let (ma, mb) = (a.get(table).unwrap_or(&ea), b.get(table).unwrap_or(&eb));
    let mut out = BTreeSet::new();
    for (k, v) in ma {
        if mb.get(k) != Some(v) {
            out.insert(k.clone());
        }
    }
    for k in mb.keys() {
        if !ma.contains_key(k) {
            out.insert(k.clone());
        }
    }
    out
}

struct Listener {
    conn: UpdConn,
    key: String,
    /// notifications consumed so far
    consumed: usize,
    /// keys changed since the last checkpoint (must be notified by the next one)
    owed: BTreeSet<String>,
    /// index into conn.events at the last checkpoint
    mark: usize,
    /// last notification per key
    last: BTreeMap<String, ChangeType>,
}

pub async fn one_execution(seed: u64) -> Result<ExecOut, String> {
    let mut rng = rand::rngs::StdRng::seed_from_u64(seed);
    let mk = |idx| async move {
        new_node(
            idx,
            NodeOpts {
                serve_sync: false,
                schema: Some(SUB_SCHEMA.to_string()),
                ..Default::default()
            },
        )
        .await
        .map_err(|e| e.to_string())
    };
    let mut node = mk(0).await?;
    let mut src = mk(1).await?;
    let _ = klukai_types::verif::take_log();
    let mut pump = Pump::default();
    let sc = SubsCtx::default();
    let all = ["p", "c", "g"];
    let mut stats: BTreeMap<String, u64> = BTreeMap::new();
    let mut stat = |k: &str, n: u64| *stats.entry(k.to_string()).or_insert(0) += n;
    let mut violations: Vec<(String, Value)> = vec![];
    let mut history: Vec<String> = vec![];
    let mut pool: Vec<ChangeV1> = vec![];

    for _ in 0..rng.random_range(2..6) {
        let mut info = TxInfo::default();
        let stmts: Vec<_> = (0..rng.random_range(2..6)).map(|_| subs::random_stmt(&mut rng, &all, &mut info)).collect();
        subs::local_tx(&mut node, stmts).await?;
        let mut info = TxInfo::default();
        let stmts: Vec<_> = (0..rng.random_range(1..4)).map(|_| subs::random_stmt(&mut rng, &all, &mut info)).collect();
        let (status, resp) = src.tx(stmts).await;
        if status == 200
            && let Some(v) = resp.version
        {
            pool.extend(subs::wait_broadcast(&mut src, v).await?);
        }
    }

    // listeners
    let mut tables: Vec<&str> = all.to_vec();
    tables.shuffle(&mut rng);
    tables.truncate(rng.random_range(1..=3));
    // a quarter of the executions push the feed of g past the bound of its causal-length cache
    // (2000 keys, cut back to 1000) while bursts on one or two keys are in flight
    let large = rng.random_range(0..4) == 0;
    if large && !tables.contains(&"g") {
        tables[0] = "g";
    }
    let mut listeners: Vec<Listener> = vec![];
    for t in &tables {
        let conn = subs::listen_updates(&node, &sc, t).await?;
        let id = conn.id.ok_or("no corro-query-id on the update feed")?;
        listeners.push(Listener {
            conn,
            key: format!("updates {id}"),
            consumed: 0,
            owed: BTreeSet::new(),
            mark: 0,
            last: BTreeMap::new(),
        });
        stat("listeners", 1);
    }
    history.push(format!("listen {tables:?}"));
    // the monitor's estimate of how many keys the cache of g's feed holds
    let mut cache_est: i64 = 0;
    let mut next_fresh: i64 = 100_000;
    let fresh_keys = |from: i64, n: i64| -> Statement {
        Statement::WithParams(
            "WITH RECURSIVE n(i) AS (SELECT ? UNION ALL SELECT i + 1 FROM n WHERE i < ?) INSERT INTO g (gid, label, w) SELECT i, 'fresh', 0 FROM n".into(),
            vec![SqliteParam::Integer(from), SqliteParam::Integer(from + n - 1)],
        )
    };
    if large {
        stat("large_executions", 1);
        if rng.random_range(0..2) == 0 {
            // the keys of the bursts enter the cache first (oldest entries) ...
            let stmts = vec![
                Statement::Simple("INSERT INTO g (gid, label, w) VALUES (1, 'early', 0) ON CONFLICT (gid) DO UPDATE SET w = 0".into()),
                Statement::Simple("INSERT INTO g (gid, label, w) VALUES (2, 'early', 0) ON CONFLICT (gid) DO UPDATE SET w = 0".into()),
            ];
            subs::local_tx(&mut node, stmts).await?;
            cache_est += 2;
            history.push("early g1 g2".into());
        }
        // ... or only after the filling (newest entries)
        let n = 1975 + rng.random_range(0..20) - cache_est;
        subs::local_tx(&mut node, vec![fresh_keys(next_fresh, n)]).await?;
        next_fresh += n;
        cache_est += n;
        history.push(format!("fill {n}"));
    }

    let n_ops = rng.random_range(10..=30);
    let mut checkpoints = 0u64;
    for opi in 0..n_ops {
        let before = snapshot(&*node.ro().map_err(|e| e.to_string())?)?;
        let choice = rng.random_range(0..100);
        let mut info = TxInfo::default();
        let op_desc;
        if choice < 35 {
            let stmts: Vec<_> = (0..rng.random_range(1..=5)).map(|_| subs::random_stmt(&mut rng, &all, &mut info)).collect();
            let (status, _) = subs::local_tx(&mut node, stmts).await?;
            op_desc = format!("local[{}]={status}", info.desc.join(","));
            stat("local_txs", 1);
        } else if choice < 55 || (large && choice < 75) {
            // several transactions on the same few keys in quick succession: they commit one
            // after the other, but their broadcasts (which feed the update feeds) are separate
            // tasks and can overtake each other
            let table = if large { "g" } else { all[rng.random_range(0..all.len())] };
            if large && cache_est < 1900 {
                // back to just under the bound, in calm
                let n = 1975 + rng.random_range(0..20) - cache_est;
                subs::local_tx(&mut node, vec![fresh_keys(next_fresh, n)]).await?;
                next_fresh += n;
                cache_est += n;
            }
            klukai_types::verif::set_delay("bcast.before_read", 300, 5_000);
            klukai_types::verif::set_delay("bcast.before_match", 700, 20_000);
            let mut versions = vec![];
            let mut descs = vec![];
            let n_tx = rng.random_range(2..=5);
            // in the large executions one or two transactions of the burst bring new keys
            let fresh_at: Vec<usize> = if large { (0..rng.random_range(1..=2)).map(|_| rng.random_range(0..n_tx)).collect() } else { vec![] };
            let est_before = cache_est;
            for ti in 0..n_tx {
                if fresh_at.contains(&ti) {
                    let n = rng.random_range(8..=25);
                    let (status, resp) = node.tx(vec![fresh_keys(next_fresh, n)]).await;
                    next_fresh += n;
                    cache_est += n;
                    descs.push(format!("fresh{n}={status}"));
                    if status == 200
                        && let Some(v) = resp.version
                    {
                        versions.push(v);
                    }
                }
                let mut info = TxInfo::default();
                let stmts: Vec<_> = (0..rng.random_range(1..=2)).map(|_| subs::random_stmt_small_keys(&mut rng, table, &mut info)).collect();
                let (status, resp) = node.tx(stmts).await;
                if large {
                    cache_est += 2; // at most: a key of the burst that had been cut from the cache
                }
                descs.push(format!("{}={status}", info.desc.join(",")));
                if status == 200
                    && let Some(v) = resp.version
                {
                    versions.push(v);
                }
            }
            subs::wait_broadcasts(&mut node, &versions).await?;
            klukai_types::verif::clear_delays();
            op_desc = format!("burst[{}]", descs.join(" | "));
            stat("local_bursts", 1);
            if large && est_before <= 2000 && cache_est > 2000 {
                stat("bursts_pushing_the_cache_past_its_bound", 1);
                cache_est = 1000 + (cache_est - 2000).max(0);
            }
        } else {
            let stmts: Vec<_> = (0..rng.random_range(1..=4)).map(|_| subs::random_stmt(&mut rng, &all, &mut info)).collect();
            let (status, resp) = src.tx(stmts).await;
            let mut d = format!("remote-authored[{}]={status}", info.desc.join(","));
            if status == 200
                && let Some(v) = resp.version
            {
                for c in subs::wait_broadcast(&mut src, v).await? {
                    if rng.random_range(0..2) == 0
                        && let Some((a, b)) = rechunk(&mut rng, &c)
                    {
                        pool.push(a);
                        pool.push(b);
                    } else {
                        pool.push(c);
                    }
                }
            }
            pool.shuffle(&mut rng);
            let take = if opi + 1 == n_ops { pool.len() } else { rng.random_range(0..=pool.len()) };
            let batch: Vec<ChangeV1> = pool.drain(..take).collect();
            if !batch.is_empty() {
                let partial = batch.iter().filter(|c| !c.is_complete()).count();
                stat("remote_buffered", partial as u64);
                stat("remote_complete", (batch.len() - partial) as u64);
                d.push_str(&format!(" deliver{}({} partial)", batch.len(), partial));
                subs::deliver_and_apply(&mut node, &mut pump, batch).await?;
            }
            op_desc = d;
        }
        history.push(op_desc.clone());
        let after = snapshot(&*node.ro().map_err(|e| e.to_string())?)?;
        for l in listeners.iter_mut() {
            let ch = changed_keys(&before, &after, &l.conn.table);
            l.owed.extend(ch);
        }

        let last = opi + 1 == n_ops;
        if !(last || rng.random_range(0..2) == 0) {
            continue;
        }
        // ---- checkpoint
        let keys: Vec<String> = listeners.iter().map(|l| l.key.clone()).collect();
        pump.wait_quiet(&keys, Duration::from_secs(90)).await?;
        checkpoints += 1;
        stat("checkpoints", 1);
        let hist: Vec<String> = history.iter().rev().take(10).rev().cloned().collect();
        for l in listeners.iter_mut() {
            // the hook announced exactly these notifications for this feed
            let announced: Vec<&(String, String, i64, String)> = pump.notified.iter().filter(|n| n.0 == l.conn.table).collect();
            let target = announced.len();
            while l.consumed < target {
                match l.conn.next_event(Duration::from_secs(60)).await {
                    Some(_) => l.consumed += 1,
                    None => return Err(format!("feed of {} delivered {} of {} announced notifications within the watchdog (error: {:?})", l.conn.table, l.consumed, target, l.conn.error)),
                }
            }
            // fold
            let new_events: Vec<(ChangeType, String)> = l.conn.events[l.mark..].iter().map(|(t, pk)| (*t, subs::cells_key(pk))).collect();
            l.mark = l.conn.events.len();
            let mut seen: BTreeSet<String> = BTreeSet::new();
            for (t, k) in &new_events {
                seen.insert(k.clone());
                l.last.insert(k.clone(), *t);
                match t {
                    ChangeType::Delete => stat("delete_notifications", 1),
                    _ => stat("update_notifications", 1),
                }
                stat("notifications", 1);
            }
            // (1) completeness
            for k in std::mem::take(&mut l.owed) {
                stat("changed_keys_checked", 1);
                if !seen.contains(&k) {
                    violations.push((
                        "notify/changed-key-never-notified".into(),
                        json!({"table": l.conn.table, "key": k, "row_before_after": [before.get(&l.conn.table).and_then(|m| m.get(&k)), after.get(&l.conn.table).and_then(|m| m.get(&k))], "notifications_in_interval": new_events.iter().map(|(t, k)| format!("{t:?} {k}")).collect::<Vec<_>>(), "last_operations": hist}),
                    ));
                }
            }
            // (2) fate
            let now = after.get(&l.conn.table).cloned().unwrap_or_default();
            for (k, t) in &l.last {
                stat("fate_checks", 1);
                let exists = now.contains_key(k);
                let says_deleted = matches!(t, ChangeType::Delete);
                if exists == says_deleted {
                    let sig = if says_deleted { "fate/last-notification-says-deleted-but-row-exists" } else { "fate/last-notification-says-updated-but-row-is-gone" };
                    let trail: Vec<String> = l.conn.events.iter().filter(|(_, pk)| subs::cells_key(pk) == *k).map(|(t, _)| format!("{t:?}")).collect();
                    let cls: Vec<String> = announced.iter().filter(|n| n.1 == *k).map(|n| format!("{}(cl{})", n.3, n.2)).collect();
                    violations.push((sig.into(), json!({"table": l.conn.table, "key": k, "row_now": now.get(k), "notifications_for_key": trail, "causal_lengths_behind_them": cls, "last_operations": hist})));
                }
            }
            // (3) causal lengths per key never go backwards
            let mut high: BTreeMap<&str, i64> = BTreeMap::new();
            for n in &announced {
                let e = high.entry(n.1.as_str()).or_insert(i64::MIN);
                if n.2 < *e {
                    violations.push((
                        "order/notification-with-older-causal-length-after-newer".into(),
                        json!({"table": l.conn.table, "key": n.1, "delivered_cl": n.2, "after_cl": *e, "last_operations": hist}),
                    ));
                }
                *e = (*e).max(n.2);
            }
        }
        if !violations.is_empty() && std::env::var_os("VH_C14_DEBUG").is_some() {
            let ro = node.ro().map_err(|e| e.to_string())?;
            for t in ["p", "c", "g"] {
                eprintln!("TABLE {t}: {:?}", subs::query_multiset(&ro, &format!("SELECT * FROM {t}")).unwrap_or_default());
                eprintln!("PKS {t}: {:?}", subs::query_multiset(&ro, &format!("SELECT * FROM {t}__crsql_pks")).unwrap_or_default());
                eprintln!("CLOCK {t}: {:?}", subs::query_multiset(&ro, &format!("SELECT * FROM {t}__crsql_clock")).unwrap_or_default());
            }
            for r in subs::query_multiset(&ro, r#"SELECT "table", hex(pk), cid, val, col_version, db_version, hex(site_id), cl, seq FROM crsql_changes ORDER BY 1,2,3"#).unwrap_or_default() {
                eprintln!("CHG {r}");
            }
        }
        // one report per signature and execution is enough
        let mut seen_sig = BTreeSet::new();
        violations.retain(|(s, _)| seen_sig.insert(s.clone()));
        if !violations.is_empty() {
            break;
        }
    }

    let both = stats.get("update_notifications").copied().unwrap_or(0) > 0 && stats.get("delete_notifications").copied().unwrap_or(0) > 0;
    let nontrivial = both && checkpoints >= 3;
    stats.insert("hook_events".into(), pump.events_seen);
    let hash = history.join(";");
    let sample = json!({"history": history.iter().take(12).collect::<Vec<_>>(), "notifications": listeners.iter().map(|l| format!("{}: {}", l.conn.table, l.conn.events.len())).collect::<Vec<_>>()});
    drop(listeners);
    drop(node.shutdown().await);
    drop(src.shutdown().await);
    Ok(ExecOut {
        violations,
        hash,
        nontrivial,
        stats,
        sample: Some(sample),
    })
}

fn run(ctx: &mut Ctx) {
    subs::run_loop(ctx, 4, 400, one_execution);
}
