//! C03 — a remote transaction becomes visible atomically, exactly when all chunks arrived.

use std::collections::BTreeMap;

use klukai_types::{
    api::Statement,
    broadcast::{ChangeSource, ChangeV1, Timestamp},
};
use rand::{Rng, seq::SliceRandom};
use rangemap::RangeInclusiveSet;
use serde_json::{Value, json};

use super::{
    TABLES, book_digest, c01::{Exec, Msg, apply_to_reference}, cells_digest, changeset_brief, make_chunks, tables_digest,
};
use crate::{
    Check,
    common::{CheckSpec, Ctx, chance, hash_str},
};

pub fn check() -> Check {
    Check {
        spec: CheckSpec {
            prop: "C03",
            level: "exploration",
            rule: "execution = origin transactions of k=2..40 rows carrying one tag each (disjoint keys per tag, values up to 9 KiB), their complete change lists cut by the harness into contiguous partitions, overlapping chunks, duplicated chunks, single-change first chunks and (when a later transaction of the origin deleted a run of the rows before the version is served) a chunk whose sequence range carries no surviving change, delivered to a real receiver node in a seeded order and batching mixed with other versions and another actor's traffic; the receiver's tables are read after EVERY delivery and apply step; oracles: per-tag visible row count in {0,k}, visible => delivered chunks cover 0..=last_seq, covered and apply queue drained => visible, buffered rows and seq bookkeeping gone after the clear loop, final state == reference; non-trivial = a version that went through the buffered path with >=3 chunks or an overlapping/duplicated chunk; distinct by hash of the chunking+schedule",
            assumptions: &[
                "bounded restatement of 'eventually applied': within the same execution after draining the apply triggers and the clear loop",
                "the discard clause (partial answered with Empty by every holder) is exercised by the C01 workload, not here",
            ],
            min_nontrivial: 20,
            required_stats: &["versions.delivered_in_chunks", "observations", "piv.case.none", "piv.case.adjacent-before", "piv.case.adjacent-after", "versions.became_visible_via_buffered_apply", "chunking.empty_chunk_of_overwritten_rows"],
        },
        budget: (60, 900),
        workers: (12, 14),
        run,
    }
}

struct Tagged {
    version: u64,
    tag: String,
    k: usize,
    last_seq: u64,
    delivered: RangeInclusiveSet<u64>,
    visible: bool,
}

pub async fn one_execution(seed: u64, stats: &mut BTreeMap<String, u64>) -> Result<(Vec<(String, Value)>, String, bool, Vec<String>), String> {
    use rand::SeedableRng;
    let mut rng = rand::rngs::StdRng::seed_from_u64(seed);
    let with_x = rng.random_range(0..2) == 0;
    let n = if with_x { 3 } else { 2 };
    let mut ex = Exec::new(n).await.map_err(|e| format!("setup: {e}"))?;
    let (o, r) = (0usize, 1usize);
    let mut violations: Vec<(String, Value)> = vec![];
    let mut tagged: Vec<Tagged> = vec![];
    let mut pool: Vec<(ChangeV1, Option<usize>)> = vec![]; // (chunk, index into tagged)
    let n_tx = rng.random_range(1..=5usize);
    let mut nontrivial = false;
    let origin_actor = ex.nodes[o].actor();

    for j in 0..n_tx {
        let k = *crate::common::pick(&mut rng, &[2usize, 3, 5, 8, 13, 40]);
        let tag = format!("tag{j}");
        let big = chance(&mut rng, 350);
        let stmts: Vec<Statement> = (0..k)
            .map(|i| {
                let payload = if big && i % 2 == 0 {
                    format!("p{j}_{i}#{}", "y".repeat(rng.random_range(2_000..9_000)))
                } else {
                    format!("p{j}_{i}")
                };
                Statement::WithParams(
                    "INSERT INTO t3 (id, tag, payload) VALUES (?, ?, ?)".into(),
                    vec![((1000 + j * 100 + i) as i64).into(), tag.clone().into(), payload.into()],
                )
            })
            .collect();
        let (status, body) = ex.nodes[o].tx(stmts).await;
        let Some(v) = body.version.filter(|_| status == 200) else {
            return Err(format!("origin tx failed: {status}"));
        };
        let mut changes = ex.nodes[o].own_changes(v).map_err(|e| e.to_string())?;
        let last_seq = changes.iter().map(|c| c.seq.0).max().unwrap_or(0);
        let bcast = ex.nodes[o].collect_broadcast(v, last_seq).await?;
        // the version's real timestamp (distinct per transaction)
        let ts = bcast.iter().find_map(|c| c.ts()).unwrap_or(Timestamp::from(1u64 << 40));
        // sometimes a later transaction of the origin deletes a run of this one's rows before
        // the version is served: its surviving changes keep their sequence numbers, and a chunk
        // that covers only the overwritten ones carries no change at all
        let mut k = k;
        let mut hole: Option<(u64, u64)> = None;
        if k >= 3 && chance(&mut rng, 250) {
            let a = rng.random_range(1..k - 1);
            let b = rng.random_range(a..k - 1);
            let (status, body) = ex.nodes[o]
                .tx(vec![Statement::WithParams(
                    "DELETE FROM t3 WHERE id BETWEEN ? AND ?".into(),
                    vec![((1000 + j * 100 + a) as i64).into(), ((1000 + j * 100 + b) as i64).into()],
                )])
                .await;
            let Some(w) = body.version.filter(|_| status == 200) else {
                return Err(format!("origin overwriting tx failed: {status}"));
            };
            let w_changes = ex.nodes[o].own_changes(w).map_err(|e| e.to_string())?;
            let w_last = w_changes.iter().map(|c| c.seq.0).max().unwrap_or(0);
            for c in ex.nodes[o].collect_broadcast(w, w_last).await? {
                pool.push((c, None));
            }
            apply_to_reference(&ex.reference, &w_changes).await?;
            let surviving = ex.nodes[o].own_changes(v).map_err(|e| e.to_string())?;
            let left: std::collections::BTreeSet<u64> = surviving.iter().map(|c| c.seq.0).collect();
            let gone: Vec<u64> = changes.iter().map(|c| c.seq.0).filter(|s| !left.contains(s)).collect();
            if let (Some(lo), Some(hi)) = (gone.iter().min(), gone.iter().max())
                && (hi - lo + 1) as usize == gone.len()
                && *lo > 0
                && *hi < last_seq
            {
                hole = Some((*lo, *hi));
            }
            ex.log.push(format!("origin v{w} deletes rows {a}..={b} of tag{j}: seqs {gone:?} of v{v} are gone"));
            k -= b - a + 1;
            changes = surviving;
        }
        apply_to_reference(&ex.reference, &changes).await?;

        // ---- cut into chunks
        let mut ranges: Vec<(u64, u64)> = vec![];
        let pattern = rng.random_range(0..10);
        let m = rng.random_range(1..=5u64).min(last_seq + 1);
        let mut cuts: Vec<u64> = (0..m - 1).map(|_| rng.random_range(0..last_seq.max(1))).collect();
        cuts.sort();
        cuts.dedup();
        let mut start = 0;
        for c in cuts.iter() {
            if *c >= start && *c < last_seq {
                ranges.push((start, *c));
                start = *c + 1;
            }
        }
        ranges.push((start, last_seq));
        let mut fancy = false;
        if let Some((lo, hi)) = hole {
            // cut around the overwritten run: its chunk is a Full changeset without changes
            ranges = vec![(0, lo - 1), (lo, hi), (hi + 1, last_seq)];
            fancy = true;
            *stats.entry("chunking.empty_chunk_of_overwritten_rows".into()).or_insert(0) += 1;
        }
        match if hole.is_some() { 9 } else { pattern } {
            0 | 1 => {
                // overlapping: extend a chunk into its neighbours
                if ranges.len() > 1 {
                    let i = rng.random_range(0..ranges.len());
                    let ext = rng.random_range(1..=3);
                    ranges[i].0 = ranges[i].0.saturating_sub(ext);
                    ranges[i].1 = (ranges[i].1 + ext).min(last_seq);
                    fancy = true;
                    *stats.entry("chunking.overlapping".into()).or_insert(0) += 1;
                }
            }
            2 | 3 => {
                let i = rng.random_range(0..ranges.len());
                ranges.push(ranges[i]);
                fancy = true;
                *stats.entry("chunking.duplicated_chunk".into()).or_insert(0) += 1;
            }
            4 => {
                if last_seq >= 2 && ranges[0].1 > 0 {
                    // single-change first chunk
                    let rest = (1, ranges[0].1);
                    ranges[0] = (0, 0);
                    ranges.insert(1, rest);
                    *stats.entry("chunking.single_change_first_chunk".into()).or_insert(0) += 1;
                }
            }
            5 => {
                // a sub-chunk strictly inside another (contained)
                let i = rng.random_range(0..ranges.len());
                if ranges[i].1 > ranges[i].0 + 1 {
                    let a = rng.random_range(ranges[i].0 + 1..ranges[i].1);
                    ranges.push((a, a));
                    fancy = true;
                    *stats.entry("chunking.contained_chunk".into()).or_insert(0) += 1;
                }
            }
            _ => {}
        }
        *stats.entry("versions.delivered_in_chunks".into()).or_insert(0) += 1;
        *stats.entry("chunks.total".into()).or_insert(0) += ranges.len() as u64;
        if ranges.len() >= 3 || fancy {
            nontrivial = true;
        }
        let chunks = make_chunks(origin_actor, v, &changes, last_seq, ts, &ranges);
        ex.log.push(format!("origin v{v} tag{j} k={k} last_seq={last_seq} chunks={ranges:?}"));
        let ti = tagged.len();
        tagged.push(Tagged {
            version: v,
            tag,
            k,
            last_seq,
            delivered: RangeInclusiveSet::new(),
            visible: false,
        });
        for c in chunks {
            pool.push((c, Some(ti)));
        }
    }
    // other actor's traffic
    if with_x {
        for _ in 0..rng.random_range(1..=4) {
            let g = ex.gens[2].next(&mut rng, false);
            let (status, body) = ex.nodes[2].tx(g.stmts.clone()).await;
            if status == 200
                && let Some(v) = body.version
            {
                let changes = ex.nodes[2].own_changes(v).map_err(|e| e.to_string())?;
                let last_seq = changes.iter().map(|c| c.seq.0).max().unwrap_or(0);
                let chunks = ex.nodes[2].collect_broadcast(v, last_seq).await?;
                apply_to_reference(&ex.reference, &changes).await?;
                for c in chunks {
                    pool.push((c, None));
                }
            }
        }
    }

    pool.shuffle(&mut rng);
    // sometimes deliver everything of one version in one call
    let one_call = chance(&mut rng, 150);

    // ---- deliver under observation
    let observe = |ex: &Exec, tagged: &mut Vec<Tagged>, when: &str, violations: &mut Vec<(String, Value)>, stats: &mut BTreeMap<String, u64>| -> Result<(), String> {
        let conn = ex.nodes[r].ro().map_err(|e| e.to_string())?;
        let mut st = conn.prepare("SELECT tag, COUNT(*) FROM t3 GROUP BY tag").map_err(|e| e.to_string())?;
        let counts: BTreeMap<String, usize> = st
            .query_map([], |row| Ok((row.get::<_, String>(0)?, row.get::<_, usize>(1)?)))
            .and_then(|rows| rows.collect())
            .map_err(|e| e.to_string())?;
        *stats.entry("observations".into()).or_insert(0) += 1;
        for t in tagged.iter_mut() {
            let c = counts.get(&t.tag).copied().unwrap_or(0);
            let covered = t.delivered.gaps(&(0..=t.last_seq)).next().is_none();
            if c != 0 && c != t.k {
                violations.push((
                    "atomicity/transaction-partially-visible".into(),
                    json!({"when": when, "tag": t.tag, "visible_rows": c, "rows_in_transaction": t.k, "version": t.version, "log": ex.log}),
                ));
            }
            if c > 0 && !covered {
                violations.push((
                    "atomicity/visible-before-all-chunks-arrived".into(),
                    json!({"when": when, "tag": t.tag, "visible_rows": c, "delivered_seqs": format!("{:?}", t.delivered), "last_seq": t.last_seq, "log": ex.log}),
                ));
            }
            if c == t.k && !t.visible {
                t.visible = true;
                if when.starts_with("apply") {
                    *stats.entry("versions.became_visible_via_buffered_apply".into()).or_insert(0) += 1;
                } else {
                    *stats.entry("versions.became_visible_at_delivery".into()).or_insert(0) += 1;
                }
            }
        }
        Ok(())
    };

    while !pool.is_empty() {
        let kk = if one_call { pool.len() } else { rng.random_range(1..=4usize).min(pool.len()) };
        let batch: Vec<(ChangeV1, Option<usize>)> = pool.drain(..kk).collect();
        for (c, ti) in batch.iter() {
            if let (Some(ti), Some(seqs)) = (ti, c.seqs()) {
                tagged[*ti].delivered.insert(seqs.start().0..=seqs.end().0);
            }
        }
        let brief: Vec<String> = batch.iter().map(|(c, _)| changeset_brief(c)).collect();
        ex.deliver(
            r,
            batch
                .into_iter()
                .map(|(c, _)| Msg {
                    change: c,
                    src: if chance(&mut rng, 500) { ChangeSource::Sync } else { ChangeSource::Broadcast },
                })
                .collect(),
        )
        .await?;
        observe(&ex, &mut tagged, &format!("deliver {brief:?}"), &mut violations, stats)?;
        if chance(&mut rng, 400) {
            ex.apply(r).await?;
            observe(&ex, &mut tagged, "apply", &mut violations, stats)?;
        }
        if chance(&mut rng, 200) {
            ex.clear(r).await?;
        }
    }
    ex.apply(r).await?;
    observe(&ex, &mut tagged, "apply (final drain)", &mut violations, stats)?;
    ex.clear(r).await?;

    // ---- everything covered and drained: must be visible, buffers gone
    for t in tagged.iter() {
        if !t.visible {
            violations.push((
                "liveness/covered-version-not-applied-after-apply-queue-drained".into(),
                json!({"tag": t.tag, "version": t.version, "delivered_seqs": format!("{:?}", t.delivered), "last_seq": t.last_seq, "log": ex.log}),
            ));
        }
    }
    {
        let conn = ex.nodes[r].ro().map_err(|e| e.to_string())?;
        let b = book_digest(&conn).map_err(|e| e.to_string())?;
        if !b.buffered.is_empty() || !b.seqs.is_empty() {
            violations.push((
                "cleanup/buffered-copies-remain-after-apply-and-clear".into(),
                json!({"buffered_rows": b.buffered.len(), "seq_rows": format!("{:?}", b.seqs), "log": ex.log}),
            ));
        }
        let st = ex.nodes[r].sync_state().await;
        if !st.partial_need.is_empty() || !st.need.is_empty() {
            violations.push((
                "cleanup/partial-or-need-still-advertised-after-everything-arrived".into(),
                json!({"state": super::render_sync_state(&st), "log": ex.log}),
            ));
        }
        // final equality with the reference for the origin's tables
        let rconn = ex.reference.ro().map_err(|e| e.to_string())?;
        let (a, b2) = (tables_digest(&conn, &TABLES).map_err(|e| e.to_string())?, tables_digest(&rconn, &TABLES).map_err(|e| e.to_string())?);
        let (ca, cb) = (cells_digest(&conn).map_err(|e| e.to_string())?, cells_digest(&rconn).map_err(|e| e.to_string())?);
        if a != b2 || ca != cb {
            violations.push((
                "result/differs-from-applying-the-unchunked-transactions".into(),
                json!({"log": ex.log}),
            ));
        }
    }
    for p in ex.panics.iter() {
        violations.push(("ingest/panic".into(), json!({"panic": p, "log": ex.log})));
    }
    ex.tally.update();
    for (k, v) in ex.tally.piv_cases.iter() {
        *stats.entry(format!("piv.case.{k}")).or_insert(0) += *v;
    }
    for (k, v) in ex.stats.iter() {
        *stats.entry(k.clone()).or_insert(0) += *v;
    }
    let h = format!("{:?}", ex.log);
    let log = ex.log.clone();
    let Exec { nodes, reference, .. } = ex;
    for nd in nodes {
        drop(nd.shutdown().await);
    }
    drop(reference.shutdown().await);
    Ok((violations, h, nontrivial, log))
}

fn run(ctx: &mut Ctx) {
    std::panic::set_hook(Box::new(|_| {}));
    let rt = tokio::runtime::Builder::new_multi_thread().worker_threads(3).enable_all().build().unwrap();
    klukai_types::verif::set_record(true);
    let target = ctx.tier.pick(600u64, 200_000u64);
    let only: Option<u64> = ctx.extra.iter().position(|a| a == "--exec-seed").and_then(|p| ctx.extra.get(p + 1)).and_then(|s| s.parse().ok());
    let mut i = 0u64;
    while i < target && ctx.time_left() {
        i += 1;
        let mut seed = ctx.seed.wrapping_mul(1_000_003).wrapping_add((ctx.worker as u64) << 40).wrapping_add(i);
        if let Some(o) = only {
            if i > 1 || ctx.worker != 0 {
                break;
            }
            seed = o;
        }
        let mut stats = BTreeMap::new();
        let res = rt.block_on(async { tokio::time::timeout(std::time::Duration::from_secs(300), one_execution(seed, &mut stats)).await });
        for (k, v) in stats {
            ctx.stat(&k, v);
        }
        match res {
            Err(_) => ctx.inconclusive(format!("execution seed {seed} exceeded the 300s watchdog")),
            Ok(Err(e)) => ctx.inconclusive(format!("execution seed {seed}: {e}")),
            Ok(Ok((violations, h, nontrivial, log))) => {
                ctx.exec(hash_str(&h), nontrivial);
                for (sig, mut d) in violations {
                    d["exec_seed"] = json!(seed);
                    ctx.violation(sig, d);
                }
                if nontrivial {
                    ctx.sample(|| json!({"exec_seed": seed, "chunking_and_schedule": log.iter().take(30).collect::<Vec<_>>()}));
                }
            }
        }
    }
}
