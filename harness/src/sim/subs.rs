//! Shared machinery for the subscription / update-feed monitors (C11, C12, C14):
//! the handlers are called the way the router calls them, the response body is read
//! frame by frame as a client would, and matcher quiescence is decided from the hook
//! log (`match.sent` / `match.recv` / `match.idle`), never from sleeping.

use std::{
    collections::BTreeMap,
    future::Future,
    time::{Duration, Instant},
};

use axum::{Extension, response::IntoResponse};
use bytes::BytesMut;
use http_body_util::BodyExt;
use klukai_agent::api::public::{
    pubsub::{SharedMatcherBroadcastCache, SubParams, api_v1_sub_by_id, api_v1_subs},
    update::{SharedUpdateBroadcastCache, api_v1_updates},
};
use klukai_types::{
    api::{NotifyEvent, QueryEvent, SqliteParam, SqliteValue, Statement, sqlite::ChangeType},
    broadcast::{BroadcastInput, BroadcastV1, ChangeSource, ChangeV1, Changeset},
    verif,
};
use rand::Rng;
use serde_json::{Value, json};
use uuid::Uuid;

use super::Node;
use crate::common::{Ctx, hash_str};

pub const SUB_SCHEMA: &str = r#"
CREATE TABLE p (id INTEGER NOT NULL PRIMARY KEY, grp INTEGER, name TEXT NOT NULL DEFAULT '', v INTEGER);
CREATE TABLE c (pid INTEGER NOT NULL, k TEXT NOT NULL, val INTEGER, note TEXT, PRIMARY KEY (pid, k));
CREATE TABLE g (gid INTEGER NOT NULL PRIMARY KEY, label TEXT, w INTEGER);
"#;
pub const SUB_TABLES: [&str; 3] = ["p", "c", "g"];

// ------------------------------------------------------------------ body reader

pub struct LineReader {
    body: axum::body::Body,
    buf: BytesMut,
    pub done: bool,
}

impl LineReader {
    pub fn new(body: axum::body::Body) -> Self {
        Self {
            body,
            buf: BytesMut::new(),
            done: false,
        }
    }

    /// next NDJSON line; None on timeout or at end of body (then `done` is set)
    pub async fn next_line(&mut self, timeout: Duration) -> Option<String> {
        let deadline = Instant::now() + timeout;
        loop {
            if let Some(p) = self.buf.iter().position(|b| *b == b'\n') {
                let line = self.buf.split_to(p + 1);
                let s = String::from_utf8_lossy(&line[..p]).to_string();
                if s.is_empty() {
                    continue;
                }
                return Some(s);
            }
            if self.done {
                if !self.buf.is_empty() {
                    let line = self.buf.split();
                    return Some(String::from_utf8_lossy(&line).to_string());
                }
                return None;
            }
            let rem = deadline.saturating_duration_since(Instant::now());
            if rem.is_zero() {
                return None;
            }
            match tokio::time::timeout(rem, self.body.frame()).await {
                Err(_) => return None,
                Ok(None) => self.done = true,
                Ok(Some(Err(_))) => self.done = true,
                Ok(Some(Ok(frame))) => {
                    if let Some(d) = frame.data_ref() {
                        self.buf.extend_from_slice(d);
                    }
                }
            }
        }
    }
}

// ------------------------------------------------------------------ subscription client

/// What a client folding the stream would hold.
#[derive(Default, Debug, Clone)]
pub struct Replay {
    pub columns: Option<Vec<String>>,
    pub rows: BTreeMap<u64, Vec<SqliteValue>>,
    pub eoq_change_id: Option<u64>,
    pub last_change_id: Option<u64>,
    pub n_changes: u64,
    pub n_rows: u64,
    pub error: Option<String>,
    /// (signature, detail) problems detectable from the stream alone
    pub problems: Vec<(String, Value)>,
    pub by_type: [u64; 3],
}

impl Replay {
    pub fn feed(&mut self, ev: &QueryEvent) {
        match ev {
            QueryEvent::Columns(c) => self.columns = Some(c.iter().map(|c| c.0.to_string()).collect()),
            QueryEvent::Row(rowid, cells) => {
                self.n_rows += 1;
                if self.rows.insert(rowid.0, cells.clone()).is_some() {
                    self.problems.push(("stream/initial-rows-repeat-a-row-id".into(), json!({"rowid": rowid.0})));
                }
            }
            QueryEvent::EndOfQuery { change_id, .. } => {
                self.eoq_change_id = Some(change_id.map(|c| c.0).unwrap_or(0));
            }
            QueryEvent::Change(t, rowid, cells, id) => {
                self.n_changes += 1;
                self.by_type[*t as usize] += 1;
                let expect = self.last_change_id.or(self.eoq_change_id).map(|x| x + 1);
                if let Some(e) = expect
                    && id.0 != e
                {
                    self.problems.push((
                        "stream/change-ids-do-not-increase-by-exactly-one".into(),
                        json!({"expected": e, "got": id.0, "event": format!("{ev:?}")}),
                    ));
                }
                self.last_change_id = Some(id.0);
                match t {
                    ChangeType::Insert => {
                        if let Some(old) = self.rows.insert(rowid.0, cells.clone()) {
                            self.problems.push(("stream/insert-event-for-a-row-id-already-present".into(), json!({"rowid": rowid.0, "old": format!("{old:?}"), "new": format!("{cells:?}"), "change_id": id.0})));
                        }
                    }
                    ChangeType::Update => match self.rows.insert(rowid.0, cells.clone()) {
                        None => self.problems.push(("stream/update-event-for-a-row-id-not-present".into(), json!({"rowid": rowid.0, "change_id": id.0}))),
                        Some(old) if old == *cells => self.problems.push(("stream/update-event-that-changes-nothing".into(), json!({"rowid": rowid.0, "cells": format!("{cells:?}"), "change_id": id.0}))),
                        _ => {}
                    },
                    ChangeType::Delete => {
                        if self.rows.remove(&rowid.0).is_none() {
                            self.problems.push(("stream/delete-event-for-a-row-id-not-present".into(), json!({"rowid": rowid.0, "change_id": id.0})));
                        }
                    }
                }
            }
            QueryEvent::Error(e) => self.error = Some(e.to_string()),
        }
    }

    pub fn last_id(&self) -> u64 {
        self.last_change_id.or(self.eoq_change_id).unwrap_or(0)
    }
}

pub struct SubConn {
    pub id: Uuid,
    pub status: u16,
    pub reader: LineReader,
    pub replay: Replay,
    /// every event received, in order
    pub events: Vec<QueryEvent>,
    pub unparsable: Vec<String>,
}

fn sub_params(from: Option<u64>, skip_rows: bool) -> SubParams {
    let mut m = serde_json::Map::new();
    if let Some(f) = from {
        m.insert("from".into(), json!(f));
    }
    m.insert("skip_rows".into(), json!(skip_rows));
    serde_json::from_value(Value::Object(m)).expect("SubParams")
}

pub struct SubsCtx {
    pub cache: SharedMatcherBroadcastCache,
    pub upd_cache: SharedUpdateBroadcastCache,
}

impl SubsCtx {
    /// the caches the node's own API router would use
    pub fn of(node: &Node) -> Self {
        Self {
            cache: node.subs_cache.clone(),
            upd_cache: node.upd_cache.clone(),
        }
    }
}

impl Default for SubsCtx {
    fn default() -> Self {
        Self {
            cache: Default::default(),
            upd_cache: Default::default(),
        }
    }
}

fn header_id(res: &axum::response::Response) -> Option<Uuid> {
    res.headers().get("corro-query-id").and_then(|v| v.to_str().ok()).and_then(|s| s.parse().ok())
}

/// POST /v1/subscriptions
pub async fn subscribe(node: &Node, sc: &SubsCtx, sql: &str, from: Option<u64>, skip_rows: bool) -> Result<SubConn, String> {
    subscribe_parts(&node.agent, &node.tripwire, sc, sql, from, skip_rows).await
}

pub async fn subscribe_parts(agent: &klukai_types::agent::Agent, tripwire: &klukai_types::tripwire::Tripwire, sc: &SubsCtx, sql: &str, from: Option<u64>, skip_rows: bool) -> Result<SubConn, String> {
    let res = api_v1_subs(
        Extension(agent.clone()),
        Extension(sc.cache.clone()),
        Extension(tripwire.clone()),
        axum::extract::Query(sub_params(from, skip_rows)),
        axum::Json(Statement::Simple(sql.into())),
    )
    .await
    .into_response();
    let status = res.status().as_u16();
    let id = header_id(&res);
    let mut reader = LineReader::new(res.into_body());
    if status != 200 {
        let body = reader.next_line(Duration::from_secs(5)).await.unwrap_or_default();
        return Err(format!("status {status}: {body}"));
    }
    Ok(SubConn {
        id: id.ok_or("no corro-query-id header")?,
        status,
        reader,
        replay: Replay::default(),
        events: vec![],
        unparsable: vec![],
    })
}

/// GET /v1/subscriptions/{id}
pub async fn attach(node: &Node, sc: &SubsCtx, id: Uuid, from: Option<u64>, skip_rows: bool) -> Result<SubConn, (u16, String)> {
    attach_parts(&node.agent, &node.tripwire, sc, id, from, skip_rows).await
}

pub async fn attach_parts(agent: &klukai_types::agent::Agent, tripwire: &klukai_types::tripwire::Tripwire, sc: &SubsCtx, id: Uuid, from: Option<u64>, skip_rows: bool) -> Result<SubConn, (u16, String)> {
    let res = api_v1_sub_by_id(
        Extension(agent.clone()),
        Extension(sc.cache.clone()),
        Extension(tripwire.clone()),
        axum::extract::Path(id),
        axum::extract::Query(sub_params(from, skip_rows)),
    )
    .await
    .into_response();
    let status = res.status().as_u16();
    let mut reader = LineReader::new(res.into_body());
    if status != 200 {
        let body = reader.next_line(Duration::from_secs(5)).await.unwrap_or_default();
        return Err((status, body));
    }
    Ok(SubConn {
        id,
        status,
        reader,
        replay: Replay::default(),
        events: vec![],
        unparsable: vec![],
    })
}

impl SubConn {
    /// a stream that never existed (request refused)
    pub fn closed(id: Uuid) -> Self {
        let mut reader = LineReader::new(axum::body::Body::empty());
        reader.done = true;
        Self {
            id,
            status: 0,
            reader,
            replay: Replay::default(),
            events: vec![],
            unparsable: vec![],
        }
    }

    /// read one event (None: timeout or end of stream)
    pub async fn next_event(&mut self, timeout: Duration) -> Option<QueryEvent> {
        let line = self.reader.next_line(timeout).await?;
        match serde_json::from_str::<QueryEvent>(&line) {
            Ok(ev) => {
                self.replay.feed(&ev);
                self.events.push(ev.clone());
                Some(ev)
            }
            Err(_) => {
                self.unparsable.push(line);
                None
            }
        }
    }

    /// read until end-of-query (initial snapshot)
    pub async fn read_snapshot(&mut self, timeout: Duration) -> Result<(), String> {
        let deadline = Instant::now() + timeout;
        while self.replay.eoq_change_id.is_none() {
            let rem = deadline.saturating_duration_since(Instant::now());
            if rem.is_zero() {
                return Err("no end-of-query within the watchdog".into());
            }
            if self.next_event(rem).await.is_none() && (self.reader.done || !self.unparsable.is_empty()) {
                return Err(format!("stream ended before end-of-query (error={:?}, unparsable={:?})", self.replay.error, self.unparsable));
            }
            if let Some(e) = &self.replay.error {
                return Err(format!("error event: {e}"));
            }
        }
        Ok(())
    }

    /// read until the change with id `target` has been seen (or nothing to wait for)
    pub async fn read_until(&mut self, target: u64, timeout: Duration) -> Result<(), String> {
        let deadline = Instant::now() + timeout;
        while self.replay.last_id() < target {
            let rem = deadline.saturating_duration_since(Instant::now());
            if rem.is_zero() {
                return Err(format!("stream stopped at change id {} before {target} within the watchdog", self.replay.last_id()));
            }
            if self.next_event(rem).await.is_none() && (self.reader.done || !self.unparsable.is_empty()) {
                return Err(format!("stream ended at change id {} before {target} (error={:?})", self.replay.last_id(), self.replay.error));
            }
            if let Some(e) = &self.replay.error {
                return Err(format!("error event: {e}"));
            }
        }
        Ok(())
    }

    /// drain whatever is immediately available (used to prove silence)
    pub async fn drain_available(&mut self, quiet_for: Duration) -> usize {
        let mut n = 0;
        while self.next_event(quiet_for).await.is_some() {
            n += 1;
        }
        n
    }
}

// ------------------------------------------------------------------ update feed client

pub struct UpdConn {
    pub table: String,
    pub id: Option<Uuid>,
    pub reader: LineReader,
    pub events: Vec<(ChangeType, Vec<SqliteValue>)>,
    pub error: Option<String>,
}

pub async fn listen_updates(node: &Node, sc: &SubsCtx, table: &str) -> Result<UpdConn, String> {
    let res = api_v1_updates(
        Extension(node.agent.clone()),
        Extension(sc.upd_cache.clone()),
        Extension(node.tripwire.clone()),
        axum::extract::Path(table.to_string()),
    )
    .await
    .into_response();
    let status = res.status().as_u16();
    let id = header_id(&res);
    let mut reader = LineReader::new(res.into_body());
    if status != 200 {
        let body = reader.next_line(Duration::from_secs(5)).await.unwrap_or_default();
        return Err(format!("status {status}: {body}"));
    }
    Ok(UpdConn {
        table: table.into(),
        id,
        reader,
        events: vec![],
        error: None,
    })
}

impl UpdConn {
    pub async fn next_event(&mut self, timeout: Duration) -> Option<(ChangeType, Vec<SqliteValue>)> {
        let line = self.reader.next_line(timeout).await?;
        match serde_json::from_str::<NotifyEvent>(&line) {
            Ok(NotifyEvent::Notify(t, pk)) => {
                self.events.push((t, pk.clone()));
                Some((t, pk))
            }
            Ok(NotifyEvent::Error(e)) => {
                self.error = Some(e.to_string());
                None
            }
            Err(e) => {
                self.error = Some(format!("unparsable line {line:?}: {e}"));
                None
            }
        }
    }
}

// ------------------------------------------------------------------ hook log pump

#[derive(Default, Debug, Clone, Copy)]
pub struct MatchState {
    pub sent: u64,
    pub recv: u64,
    pub idle: bool,
}

/// Drains the process-wide hook log and keeps what the monitors need from it.
#[derive(Default)]
pub struct Pump {
    /// "subs <id>" / "updates <id>" -> state
    pub matchers: BTreeMap<String, MatchState>,
    /// apply triggers announced and not yet consumed by the harness
    pub pending_apply: u64,
    pub events_seen: u64,
    /// update notifications handed to listener channels: (table, key, causal length, type)
    pub notified: Vec<(String, String, i64, String)>,
}

impl Pump {
    pub fn pump(&mut self) {
        for e in verif::take_log() {
            self.events_seen += 1;
            match e.label.as_str() {
                "match.sent" => self.matchers.entry(e.payload.clone()).or_insert(MatchState { idle: true, ..Default::default() }).sent += 1,
                "match.recv" => {
                    let m = self.matchers.entry(e.payload.clone()).or_insert(MatchState { idle: true, ..Default::default() });
                    m.recv += 1;
                    m.idle = false;
                }
                "match.idle" => self.matchers.entry(e.payload.clone()).or_insert(MatchState { idle: true, ..Default::default() }).idle = true,
                "pmc.apply_trigger" => self.pending_apply += 1,
                "upd.notify" => {
                    let mut it = e.payload.splitn(4, ' ');
                    if let (Some(t), Some(cl), Some(ty), Some(pk)) = (it.next(), it.next(), it.next(), it.next())
                        && let Ok(cells) = serde_json::from_str::<Vec<SqliteValue>>(pk)
                    {
                        self.notified.push((t.to_string(), cells_key(&cells), cl.parse().unwrap_or(i64::MIN), ty.to_string()));
                    }
                }
                _ => {}
            }
        }
    }

    pub fn quiet(&self, key: &str) -> bool {
        match self.matchers.get(key) {
            None => true,
            Some(m) => m.sent == m.recv && m.idle,
        }
    }

    /// wait (logically) until every listed matcher has consumed everything sent to it
    pub async fn wait_quiet(&mut self, keys: &[String], watchdog: Duration) -> Result<(), String> {
        let deadline = Instant::now() + watchdog;
        loop {
            self.pump();
            if keys.iter().all(|k| self.quiet(k)) {
                return Ok(());
            }
            if Instant::now() > deadline {
                let busy: Vec<_> = keys.iter().filter(|k| !self.quiet(k)).map(|k| format!("{k}: {:?}", self.matchers.get(k))).collect();
                return Err(format!("matchers not quiescent within the watchdog: {busy:?}"));
            }
            tokio::time::sleep(Duration::from_millis(20)).await;
        }
    }
}

// ------------------------------------------------------------------ node driving

/// local transaction on `node`; waits until its changes went through `broadcast_changes`
/// (which is where subscriptions and update feeds are fed for local writes).
/// Returns (status, version if any).
pub async fn local_tx(node: &mut Node, stmts: Vec<Statement>) -> Result<(u16, Option<u64>), String> {
    let (status, resp) = node.tx(stmts).await;
    if status != 200 {
        return Ok((status, None));
    }
    let Some(v) = resp.version else { return Ok((status, None)) };
    wait_broadcast(node, v).await?;
    Ok((status, Some(v)))
}

/// receive broadcast chunks of own version `version` until 0..=last_seq is covered
pub async fn wait_broadcast(node: &mut Node, version: u64) -> Result<Vec<ChangeV1>, String> {
    let mut covered = rangemap::RangeInclusiveSet::<u64>::new();
    let mut last: Option<u64> = None;
    let mut got = vec![];
    let deadline = Instant::now() + Duration::from_secs(60);
    loop {
        if let Some(l) = last
            && covered.gaps(&(0..=l)).next().is_none()
        {
            return Ok(got);
        }
        let rem = deadline.saturating_duration_since(Instant::now());
        if rem.is_zero() {
            return Err(format!("broadcast of local version {version} not seen within the watchdog"));
        }
        match tokio::time::timeout(rem, node.rx_bcast.recv()).await {
            Ok(Some(BroadcastInput::AddBroadcast(BroadcastV1::Change(c)))) | Ok(Some(BroadcastInput::Rebroadcast(BroadcastV1::Change(c)))) => {
                if let Changeset::Full { version: v, seqs, last_seq, .. } = &c.changeset
                    && v.0 == version
                {
                    covered.insert(seqs.start().0..=seqs.end().0);
                    last = Some(last_seq.0);
                }
                got.push(c);
            }
            Ok(None) => return Err("bcast channel closed".into()),
            Err(_) => {}
        }
    }
}

/// receive broadcast chunks until every listed own version is covered completely
pub async fn wait_broadcasts(node: &mut Node, versions: &[u64]) -> Result<(), String> {
    let mut covered: BTreeMap<u64, (rangemap::RangeInclusiveSet<u64>, Option<u64>)> = versions.iter().map(|v| (*v, (Default::default(), None))).collect();
    let deadline = Instant::now() + Duration::from_secs(60);
    loop {
        if covered.values().all(|(c, l)| l.is_some_and(|l| c.gaps(&(0..=l)).next().is_none())) {
            return Ok(());
        }
        let rem = deadline.saturating_duration_since(Instant::now());
        if rem.is_zero() {
            return Err(format!("broadcasts of local versions {versions:?} not all seen within the watchdog"));
        }
        match tokio::time::timeout(rem, node.rx_bcast.recv()).await {
            Ok(Some(BroadcastInput::AddBroadcast(BroadcastV1::Change(c)))) | Ok(Some(BroadcastInput::Rebroadcast(BroadcastV1::Change(c)))) => {
                if let Changeset::Full { version: v, seqs, last_seq, .. } = &c.changeset
                    && let Some(e) = covered.get_mut(&v.0)
                {
                    e.0.insert(seqs.start().0..=seqs.end().0);
                    e.1 = Some(last_seq.0);
                }
            }
            Ok(None) => return Err("bcast channel closed".into()),
            Err(_) => {}
        }
    }
}

/// deliver a batch, then run every buffered apply the hook announced
pub async fn deliver_and_apply(node: &mut Node, pump: &mut Pump, batch: Vec<ChangeV1>) -> Result<(), String> {
    node.deliver(batch.into_iter().map(|c| (c, ChangeSource::Sync)).collect()).await?;
    pump.pump();
    let mut n = pump.pending_apply;
    pump.pending_apply = 0;
    node.drain_apply(&mut n).await?;
    Ok(())
}

// ------------------------------------------------------------------ workload

pub fn ival(rng: &mut impl Rng) -> SqliteValue {
    match rng.random_range(0..10) {
        0 => SqliteValue::Null,
        _ => SqliteValue::Integer(rng.random_range(0..30)),
    }
}

pub fn tval(rng: &mut impl Rng, tag: &str) -> SqliteValue {
    match rng.random_range(0..8) {
        0 => SqliteValue::Null,
        1 => SqliteValue::Text("".into()),
        _ => SqliteValue::Text(format!("{tag}{}", rng.random_range(0..6)).into()),
    }
}

pub const K_DOMAIN: [&str; 4] = ["a", "b", "c", ""];

#[derive(Debug, Clone, Default)]
pub struct TxInfo {
    /// parents whose children changed (c rows of that pid)
    pub c_pids: Vec<i64>,
    /// groups whose g row changed
    pub g_gids: Vec<i64>,
    pub touches_p: bool,
    pub desc: Vec<String>,
}

fn st(sql: &str, params: Vec<SqliteValue>) -> Statement {
    Statement::WithParams(
        sql.into(),
        params
            .into_iter()
            .map(|v| match v {
                SqliteValue::Null => SqliteParam::Null,
                SqliteValue::Integer(i) => SqliteParam::Integer(i),
                SqliteValue::Real(r) => SqliteParam::Real(r.0),
                SqliteValue::Text(t) => SqliteParam::Text(t),
                SqliteValue::Blob(b) => SqliteParam::Blob(b),
            })
            .collect(),
    )
}

/// one random statement; `tables` restricts which tables may be written
pub fn random_stmt(rng: &mut impl Rng, tables: &[&str], info: &mut TxInfo) -> Statement {
    let t = tables[rng.random_range(0..tables.len())];
    let pid = rng.random_range(1..=6i64);
    let gid = rng.random_range(1..=4i64);
    match t {
        "p" => {
            info.touches_p = true;
            match rng.random_range(0..12) {
                0..=3 => {
                    info.desc.push(format!("upsert p{pid}"));
                    let grp = if rng.random_range(0..4) == 0 { SqliteValue::Null } else { SqliteValue::Integer(gid) };
                    let name = match tval(rng, "n") {
                        SqliteValue::Null => SqliteValue::Text("x".into()),
                        o => o,
                    };
                    st(
                        "INSERT INTO p (id, grp, name, v) VALUES (?, ?, ?, ?) ON CONFLICT (id) DO UPDATE SET grp = excluded.grp, name = excluded.name, v = excluded.v",
                        vec![SqliteValue::Integer(pid), grp, name, ival(rng)],
                    )
                }
                4..=5 => {
                    info.desc.push(format!("p{pid}.v"));
                    st("UPDATE p SET v = ? WHERE id = ?", vec![ival(rng), SqliteValue::Integer(pid)])
                }
                6 => {
                    info.desc.push(format!("p{pid}.name"));
                    st("UPDATE p SET name = ? WHERE id = ?", vec![SqliteValue::Text(format!("m{}", rng.random_range(0..6)).into()), SqliteValue::Integer(pid)])
                }
                7..=8 => {
                    info.desc.push(format!("p{pid}.grp"));
                    let grp = if rng.random_range(0..4) == 0 { SqliteValue::Null } else { SqliteValue::Integer(gid) };
                    st("UPDATE p SET grp = ? WHERE id = ?", vec![grp, SqliteValue::Integer(pid)])
                }
                9..=10 => {
                    info.desc.push(format!("del p{pid}"));
                    st("DELETE FROM p WHERE id = ?", vec![SqliteValue::Integer(pid)])
                }
                _ => {
                    // key change into the spare range (fails when the target exists: the whole
                    // transaction is then rolled back, which is fine)
                    let to = rng.random_range(1..=8i64);
                    info.desc.push(format!("p{pid}->p{to}"));
                    st("UPDATE p SET id = ? WHERE id = ?", vec![SqliteValue::Integer(to), SqliteValue::Integer(pid)])
                }
            }
        }
        "c" => {
            info.c_pids.push(pid);
            let k = K_DOMAIN[rng.random_range(0..K_DOMAIN.len())];
            match rng.random_range(0..10) {
                0..=3 => {
                    info.desc.push(format!("upsert c{pid}{k:?}"));
                    st(
                        "INSERT INTO c (pid, k, val, note) VALUES (?, ?, ?, ?) ON CONFLICT (pid, k) DO UPDATE SET val = excluded.val, note = excluded.note",
                        vec![SqliteValue::Integer(pid), SqliteValue::Text(k.into()), ival(rng), tval(rng, "t")],
                    )
                }
                4..=5 => {
                    info.desc.push(format!("c{pid}{k:?}.val"));
                    st("UPDATE c SET val = ? WHERE pid = ? AND k = ?", vec![ival(rng), SqliteValue::Integer(pid), SqliteValue::Text(k.into())])
                }
                6 => {
                    info.desc.push(format!("c{pid}{k:?}.note"));
                    st("UPDATE c SET note = ? WHERE pid = ? AND k = ?", vec![tval(rng, "u"), SqliteValue::Integer(pid), SqliteValue::Text(k.into())])
                }
                7 => {
                    info.desc.push(format!("del c{pid}{k:?}"));
                    st("DELETE FROM c WHERE pid = ? AND k = ?", vec![SqliteValue::Integer(pid), SqliteValue::Text(k.into())])
                }
                8 => {
                    info.desc.push(format!("del c{pid}*"));
                    st("DELETE FROM c WHERE pid = ?", vec![SqliteValue::Integer(pid)])
                }
                _ => {
                    let k2 = K_DOMAIN[rng.random_range(0..K_DOMAIN.len())];
                    info.desc.push(format!("c{pid}{k:?}->{k2:?}"));
                    st("UPDATE c SET k = ? WHERE pid = ? AND k = ?", vec![SqliteValue::Text(k2.into()), SqliteValue::Integer(pid), SqliteValue::Text(k.into())])
                }
            }
        }
        _ => {
            info.g_gids.push(gid);
            match rng.random_range(0..8) {
                0..=3 => {
                    info.desc.push(format!("upsert g{gid}"));
                    st(
                        "INSERT INTO g (gid, label, w) VALUES (?, ?, ?) ON CONFLICT (gid) DO UPDATE SET label = excluded.label, w = excluded.w",
                        vec![SqliteValue::Integer(gid), tval(rng, "L"), SqliteValue::Integer(rng.random_range(0..3))],
                    )
                }
                4 => {
                    info.desc.push(format!("g{gid}.label"));
                    st("UPDATE g SET label = ? WHERE gid = ?", vec![tval(rng, "M"), SqliteValue::Integer(gid)])
                }
                5 => {
                    info.desc.push(format!("g{gid}.w"));
                    st("UPDATE g SET w = ? WHERE gid = ?", vec![SqliteValue::Integer(rng.random_range(0..3)), SqliteValue::Integer(gid)])
                }
                _ => {
                    info.desc.push(format!("del g{gid}"));
                    st("DELETE FROM g WHERE gid = ?", vec![SqliteValue::Integer(gid)])
                }
            }
        }
    }
}

/// insert / delete / update on one of two keys of `table` (for delete-reinsert races)
pub fn random_stmt_small_keys(rng: &mut impl Rng, table: &str, info: &mut TxInfo) -> Statement {
    let id = rng.random_range(1..=2i64);
    let del = rng.random_range(0..5) < 2;
    match table {
        "p" => {
            info.touches_p = true;
            if del {
                info.desc.push(format!("del p{id}"));
                st("DELETE FROM p WHERE id = ?", vec![SqliteValue::Integer(id)])
            } else {
                info.desc.push(format!("upsert p{id}"));
                st("INSERT INTO p (id, grp, name, v) VALUES (?, 1, 'b', ?) ON CONFLICT (id) DO UPDATE SET v = excluded.v", vec![SqliteValue::Integer(id), SqliteValue::Integer(rng.random_range(0..1000))])
            }
        }
        "c" => {
            info.c_pids.push(id);
            if del {
                info.desc.push(format!("del c{id}a"));
                st("DELETE FROM c WHERE pid = ? AND k = 'a'", vec![SqliteValue::Integer(id)])
            } else {
                info.desc.push(format!("upsert c{id}a"));
                st("INSERT INTO c (pid, k, val, note) VALUES (?, 'a', ?, 'b') ON CONFLICT (pid, k) DO UPDATE SET val = excluded.val", vec![SqliteValue::Integer(id), SqliteValue::Integer(rng.random_range(0..1000))])
            }
        }
        _ => {
            info.g_gids.push(id);
            if del {
                info.desc.push(format!("del g{id}"));
                st("DELETE FROM g WHERE gid = ?", vec![SqliteValue::Integer(id)])
            } else {
                info.desc.push(format!("upsert g{id}"));
                st("INSERT INTO g (gid, label, w) VALUES (?, 'b', ?) ON CONFLICT (gid) DO UPDATE SET w = excluded.w", vec![SqliteValue::Integer(id), SqliteValue::Integer(rng.random_range(0..1000))])
            }
        }
    }
}

/// statements that make the left-hand rows joined with the changed nullable-side rows
/// candidates of the same transaction (bump a projected column of p)
pub fn parent_touches(info: &TxInfo) -> Vec<Statement> {
    let mut out = vec![];
    let mut pids = info.c_pids.clone();
    pids.sort();
    pids.dedup();
    for pid in pids {
        out.push(st("UPDATE p SET v = coalesce(v, 0) + 1 WHERE id = ?", vec![SqliteValue::Integer(pid)]));
    }
    let mut gids = info.g_gids.clone();
    gids.sort();
    gids.dedup();
    for gid in gids {
        out.push(st("UPDATE p SET v = coalesce(v, 0) + 1 WHERE grp = ?", vec![SqliteValue::Integer(gid)]));
    }
    out
}

// ------------------------------------------------------------------ oracles' helpers

pub fn cells_key(cells: &[SqliteValue]) -> String {
    let mut s = String::new();
    for c in cells {
        match c {
            SqliteValue::Null => s.push_str("N|"),
            SqliteValue::Integer(i) => s.push_str(&format!("I{i}|")),
            SqliteValue::Real(r) => s.push_str(&format!("R{:?}|", r.0)),
            SqliteValue::Text(t) => s.push_str(&format!("T{t:?}|")),
            SqliteValue::Blob(b) => s.push_str(&format!("B{}|", super::hex(b))),
        }
    }
    s
}

/// multiset of result rows as sorted vector of canonical strings
pub fn query_multiset(conn: &rusqlite::Connection, sql: &str) -> rusqlite::Result<Vec<String>> {
    let mut st = conn.prepare(sql)?;
    let n = st.column_count();
    let mut rows = st.query([])?;
    let mut out = vec![];
    while let Some(r) = rows.next()? {
        let cells: Vec<SqliteValue> = (0..n).map(|i| r.get::<_, SqliteValue>(i)).collect::<rusqlite::Result<_>>()?;
        out.push(cells_key(&cells));
    }
    out.sort();
    Ok(out)
}

/// the materialised table of a subscription: rowid -> cells, plus MAX(changes.id)
pub fn materialised(node: &Node, id: Uuid, ncols: usize) -> Result<(BTreeMap<u64, Vec<SqliteValue>>, u64, u64), String> {
    let path = klukai_types::pubsub::Matcher::sub_db_path(node.agent.config().db.subscriptions_path().as_path(), id);
    let conn = rusqlite::Connection::open_with_flags(path.as_std_path(), rusqlite::OpenFlags::SQLITE_OPEN_READ_ONLY).map_err(|e| format!("open {path}: {e}"))?;
    let cols: Vec<String> = (0..ncols).map(|i| format!("col_{i}")).collect();
    let mut st = conn.prepare(&format!("SELECT __corro_rowid, {} FROM query", cols.join(","))).map_err(|e| e.to_string())?;
    let mut rows = st.query([]).map_err(|e| e.to_string())?;
    let mut out = BTreeMap::new();
    while let Some(r) = rows.next().map_err(|e| e.to_string())? {
        let rowid: i64 = r.get(0).map_err(|e| e.to_string())?;
        let cells: Vec<SqliteValue> = (1..=ncols).map(|i| r.get::<_, SqliteValue>(i)).collect::<rusqlite::Result<_>>().map_err(|e| e.to_string())?;
        out.insert(rowid as u64, cells);
    }
    let (max_id, n): (i64, i64) = conn.query_row("SELECT COALESCE(MAX(id), 0), COUNT(*) FROM changes", [], |r| Ok((r.get(0)?, r.get(1)?))).map_err(|e| e.to_string())?;
    Ok((out, max_id as u64, n as u64))
}

pub fn multiset_of(rows: &BTreeMap<u64, Vec<SqliteValue>>) -> Vec<String> {
    let mut v: Vec<String> = rows.values().map(|c| cells_key(c)).collect();
    v.sort();
    v
}

/// short human-readable difference of two sorted multisets
pub fn multiset_diff(a: &[String], b: &[String]) -> Value {
    let mut only_a = vec![];
    let mut only_b = vec![];
    let (mut i, mut j) = (0, 0);
    while i < a.len() || j < b.len() {
        if j >= b.len() || (i < a.len() && a[i] < b[j]) {
            only_a.push(a[i].clone());
            i += 1;
        } else if i >= a.len() || b[j] < a[i] {
            only_b.push(b[j].clone());
            j += 1;
        } else {
            i += 1;
            j += 1;
        }
    }
    only_a.truncate(6);
    only_b.truncate(6);
    json!({"only_in_first": only_a, "only_in_second": only_b})
}

// ------------------------------------------------------------------ run loop

pub struct ExecOut {
    pub violations: Vec<(String, Value)>,
    pub hash: String,
    pub nontrivial: bool,
    pub stats: BTreeMap<String, u64>,
    pub sample: Option<Value>,
}

pub fn run_loop<F, Fut>(ctx: &mut Ctx, threads: usize, quick_target: u64, f: F)
where
    F: Fn(u64) -> Fut,
    Fut: Future<Output = Result<ExecOut, String>>,
{
    std::panic::set_hook(Box::new(|_| {}));
    let rt = tokio::runtime::Builder::new_multi_thread().worker_threads(threads).enable_all().build().unwrap();
    verif::set_record(true);
    let target = ctx.tier.pick(quick_target, 1_000_000u64);
    let only: Option<u64> = ctx.extra.iter().position(|a| a == "--exec-seed").and_then(|p| ctx.extra.get(p + 1)).and_then(|s| s.parse().ok());
    let mut i = 0u64;
    while i < target && ctx.time_left() {
        i += 1;
        let mut seed = ctx.seed.wrapping_mul(1_000_003).wrapping_add((ctx.worker as u64) << 40).wrapping_add(i);
        if let Some(o) = only {
            if i > 1 || ctx.worker != 0 {
                break;
            }
            seed = o;
        }
        let res = rt.block_on(async { tokio::time::timeout(Duration::from_secs(600), f(seed)).await });
        match res {
            Err(_) => ctx.inconclusive(format!("execution seed {seed} exceeded the 600s watchdog")),
            Ok(Err(e)) => ctx.inconclusive(format!("execution seed {seed}: {e}")),
            Ok(Ok(out)) => {
                for (k, v) in out.stats {
                    if let Some(k) = k.strip_prefix("max:") {
                        ctx.stat_max(k, v);
                    } else {
                        ctx.stat(&k, v);
                    }
                }
                ctx.exec(hash_str(&out.hash), out.nontrivial);
                for (sig, mut d) in out.violations {
                    d["exec_seed"] = json!(seed);
                    ctx.violation(sig, d);
                }
                if let Some(s) = out.sample
                    && out.nontrivial
                {
                    ctx.sample(|| {
                        let mut s = s;
                        s["exec_seed"] = json!(seed);
                        s
                    });
                }
            }
        }
    }
}
