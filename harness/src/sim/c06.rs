//! C06 — a crash at any point loses no acknowledged write and no sync obligation.
//!
//! Crash images: at every `*.after_commit` hook hit during an operation on the
//! victim node, the callback copies `db` + `db-wal` while the committing thread
//! still holds the single write connection — exactly what a process crash at that
//! instruction leaves. Each image is booted with the real `start_with_config`.

use std::{
    collections::{BTreeMap, BTreeSet},
    path::PathBuf,
    sync::{Arc, Mutex},
    time::{Duration, Instant},
};

use klukai_agent::{agent::start_with_config, api::peer::parallel_sync};
use klukai_types::{
    actor::ActorId,
    base::CrsqlDbVersion,
    broadcast::{ChangeSource, ChangeV1, Changeset},
    config::Config,
    sync::{SyncStateV1, generate_sync},
    tripwire::Tripwire,
    verif::{self, HC_INFLIGHT, HC_QUEUE, HC_RECV, HC_SYNCED},
};
use rand::{Rng, seq::SliceRandom};
use serde_json::{Value, json};

use super::{
    CellsDigest, TABLES, TablesDigest,
    c01::{Exec, Msg, rechunk},
    cells_digest, render_sync_state, tables_digest,
};
use crate::{
    Check,
    common::{CheckSpec, Ctx, chance, hash_str},
};

pub fn check() -> Check {
    Check {
        spec: CheckSpec {
            prop: "C06",
            level: "fault_enumeration",
            rule: "history = local writes, remote deliveries (complete, partial chunks, empties), buffered applies and clear steps on a victim node fed by 1-2 real origins; crash point = every hit of a commit hook (local/pmc/pfb/cbm .after_commit, i.e. after the commit that stores data and before the in-memory update) during the history: a file-level crash image (db + WAL) is taken there and booted with the real start_with_config; per image: own head == number of acknowledged own transactions, no gap in own versions, held(restarted) is a subset of held(live, after the op) for every foreign actor (a lower claim after restart is allowed and only counted), every completely buffered version is scheduled for apply at start-up and applied, and after real sync sessions with the origins the restarted node, the origins and the reference merge of all acknowledged transactions up to the crash point agree; non-trivial = image whose restarted state differs from the pre-operation live state (the crash fell between commit and in-memory update) or that contains a completely buffered unapplied version; distinct by hash of history prefix + hook label",
            assumptions: &[
                "crash model: process death on an intact OS and disk (no torn pages, no fsync lies); synchronous=NORMAL durability against OS crash is not claimed",
                "the copy of db + db-wal taken inside the commit hook equals what a SIGKILL at that instruction leaves (no other writer exists: single write connection)",
            ],
            min_nontrivial: 30,
            required_stats: &["images.booted", "images.at.local.after_commit", "images.at.pmc.after_commit", "images.at.pfb.after_commit", "images.with_fully_buffered_unapplied", "restart.apply_scheduled", "restart.converged"],
        },
        budget: (70, 900),
        workers: (12, 14),
        run,
    }
}

struct Capture {
    db: PathBuf,
    root: PathBuf,
    armed: bool,
    op: usize,
    images: Vec<ImageMeta>,
}

#[derive(Clone, Debug)]
struct ImageMeta {
    dir: PathBuf,
    op: usize,
    label: String,
}

static CAPTURE: Mutex<Option<Capture>> = Mutex::new(None);

fn install_callbacks() {
    for label in ["local.after_commit", "pmc.after_commit", "pfb.after_commit", "cbm.after_commit"] {
        verif::set_callback(
            label,
            Arc::new(|label: &str, _n: u64, _payload: &str| {
                let mut g = CAPTURE.lock().unwrap();
                if let Some(c) = g.as_mut()
                    && c.armed
                {
                    let dir = c.root.join(format!("img-{}", c.images.len()));
                    if std::fs::create_dir_all(&dir).is_ok() {
                        let ok = std::fs::copy(&c.db, dir.join("corrosion.db")).is_ok();
                        let wal = c.db.with_extension("db-wal");
                        if wal.exists() {
                            let _ = std::fs::copy(&wal, dir.join("corrosion.db-wal"));
                        }
                        if ok {
                            c.images.push(ImageMeta {
                                dir,
                                op: c.op,
                                label: label.to_string(),
                            });
                        }
                    }
                }
            }),
        );
    }
}

fn held_sets(st: &SyncStateV1) -> BTreeMap<ActorId, BTreeSet<u64>> {
    let mut out = BTreeMap::new();
    for (a, head) in st.heads.iter() {
        let mut s: BTreeSet<u64> = (1..=head.0).collect();
        for r in st.need.get(a).cloned().unwrap_or_default() {
            for v in r.start().0..=r.end().0 {
                s.remove(&v);
            }
        }
        for v in st.partial_need.get(a).map(|m| m.keys().cloned().collect::<Vec<_>>()).unwrap_or_default() {
            s.remove(&v.0);
        }
        out.insert(*a, s);
    }
    out
}

struct LiveSnap {
    state: SyncStateV1,
    own_acked: u64,
}

/// number of completely buffered, unapplied versions recorded in an image
fn fully_buffered_in(conn: &rusqlite::Connection) -> rusqlite::Result<Vec<(Vec<u8>, u64)>> {
    let mut st = conn.prepare("SELECT site_id, db_version, start_seq, end_seq, last_seq FROM __corro_seq_bookkeeping ORDER BY 1,2,3")?;
    let mut rows = st.query([])?;
    let mut acc: BTreeMap<(Vec<u8>, u64), (rangemap::RangeInclusiveSet<u64>, u64)> = BTreeMap::new();
    while let Some(r) = rows.next()? {
        let k: (Vec<u8>, u64) = (r.get(0)?, r.get(1)?);
        let e = acc.entry(k).or_insert_with(|| (rangemap::RangeInclusiveSet::new(), 0));
        e.0.insert(r.get::<_, u64>(2)?..=r.get::<_, u64>(3)?);
        e.1 = r.get(4)?;
    }
    Ok(acc.into_iter().filter(|(_, (s, last))| s.gaps(&(0..=*last)).next().is_none()).map(|(k, _)| k).collect())
}

async fn wait_ingest_idle() -> Result<(), String> {
    let deadline = Instant::now() + Duration::from_secs(60);
    let mut stable = 0;
    loop {
        let idle = HC_SYNCED.get() == HC_RECV.get() && HC_QUEUE.get() == 0 && HC_INFLIGHT.get() == 0;
        stable = if idle { stable + 1 } else { 0 };
        if stable >= 3 {
            return Ok(());
        }
        if Instant::now() > deadline {
            return Err("restarted node's ingest loop not idle after 60s".into());
        }
        tokio::time::sleep(Duration::from_millis(3)).await;
    }
}

pub async fn one_execution(seed: u64, stats: &mut BTreeMap<String, u64>, max_images: usize) -> Result<(Vec<(String, Value)>, Vec<(u64, bool)>), String> {
    use rand::SeedableRng;
    let mut rng = rand::rngs::StdRng::seed_from_u64(seed);
    let n_orig = rng.random_range(1..=2usize);
    let n = n_orig + 1;
    let mut ex = Exec::new(n).await.map_err(|e| format!("setup: {e}"))?;
    let v = n - 1; // victim
    let victim_actor = ex.nodes[v].actor();
    let bump = |stats: &mut BTreeMap<String, u64>, k: &str| *stats.entry(k.to_string()).or_insert(0) += 1;

    // phase 1: origins write; victim's inbox fills
    for o in 0..n_orig {
        for _ in 0..rng.random_range(3..=8) {
            ex.do_tx(o, &mut rng, true).await?;
        }
    }
    let mut inbox: Vec<Msg> = std::mem::take(&mut ex.inflight[v]);
    for q in ex.inflight.iter_mut() {
        q.clear();
    }
    let mut extra = vec![];
    inbox.retain_mut(|m| {
        if chance(&mut rng, 300)
            && let Some((a, b)) = rechunk(&mut rng, &m.change)
        {
            extra.push(Msg { change: a, src: m.src });
            extra.push(Msg { change: b, src: m.src });
            return false;
        }
        !chance(&mut rng, 80)
    });
    inbox.extend(extra);
    inbox.shuffle(&mut rng);

    // reference digests per number of own acknowledged transactions
    let ref_digest = |ex: &Exec| -> Result<(TablesDigest, CellsDigest), String> {
        let c = ex.reference.ro().map_err(|e| e.to_string())?;
        Ok((tables_digest(&c, &TABLES).map_err(|e| e.to_string())?, cells_digest(&c).map_err(|e| e.to_string())?))
    };
    let mut ref_by_own: BTreeMap<u64, (TablesDigest, CellsDigest)> = BTreeMap::new();
    ref_by_own.insert(0, ref_digest(&ex)?);

    // phase 2: history on the victim under image capture
    let root = ex.nodes[v].dir.path().join("crash-images");
    *CAPTURE.lock().unwrap() = Some(Capture {
        db: PathBuf::from(ex.nodes[v].conf.db.path.as_str()),
        root,
        armed: false,
        op: 0,
        images: vec![],
    });
    install_callbacks();
    let mut live: Vec<LiveSnap> = vec![LiveSnap {
        state: ex.nodes[v].sync_state().await,
        own_acked: 0,
    }];
    let mut own_acked = 0u64;
    let mut op = 0usize;
    let arm = |on: bool, op: usize| {
        if let Some(c) = CAPTURE.lock().unwrap().as_mut() {
            c.armed = on;
            c.op = op;
        }
    };
    let mut steps = 0;
    while (!inbox.is_empty() || steps < 6) && steps < 60 {
        steps += 1;
        op += 1;
        arm(true, op);
        let r = rng.random_range(0..100);
        if r < 25 {
            let before = ex.acked.len();
            ex.do_tx(v, &mut rng, true).await?;
            if ex.acked.len() > before {
                own_acked += 1;
                ref_by_own.insert(own_acked, ref_digest(&ex)?);
            }
        } else if r < 75 && !inbox.is_empty() {
            let k = rng.random_range(1..=4usize).min(inbox.len());
            let batch: Vec<Msg> = inbox.drain(..k).collect();
            ex.deliver(v, batch).await?;
        } else if r < 90 {
            ex.apply(v).await?;
        } else {
            ex.clear(v).await?;
        }
        arm(false, op);
        live.push(LiveSnap {
            state: ex.nodes[v].sync_state().await,
            own_acked,
        });
    }
    // victim's own broadcasts are not delivered to the origins (they learn them by sync later)
    for q in ex.inflight.iter_mut() {
        q.clear();
    }
    let images: Vec<ImageMeta> = CAPTURE.lock().unwrap().take().map(|c| c.images).unwrap_or_default();
    verif::clear_callbacks();
    *stats.entry("images.taken".into()).or_insert(0) += images.len() as u64;

    let mut violations: Vec<(String, Value)> = vec![];
    let mut cases = vec![];
    let mut chosen: Vec<&ImageMeta> = images.iter().collect();
    chosen.shuffle(&mut rng);
    chosen.truncate(max_images);
    // Boot in increasing order of the victim's own head: the origins learn the victim's
    // transactions from each restarted node, and a later image must not know fewer of them
    // than the origins do (that would be a different fault: a node rolled back in time).
    chosen.sort_by_key(|img| if img.label == "local.after_commit" { live[img.op].own_acked } else { live[img.op - 1].own_acked });

    for img in chosen {
        bump(stats, "images.booted");
        bump(stats, &format!("images.at.{}", img.label));
        let prev = &live[img.op - 1];
        let post = &live[img.op];
        // what the image holds
        let (fully_buffered, image_db_versions) = {
            let c = rusqlite::Connection::open(img.dir.join("corrosion.db")).map_err(|e| e.to_string())?;
            let dbv: Vec<String> = {
                let mut st = c.prepare("SELECT hex(site_id), db_version FROM crsql_db_versions").map_err(|e| e.to_string())?;
                st.query_map([], |r| Ok(format!("{}:{}", r.get::<_, String>(0)?, r.get::<_, i64>(1)?))).and_then(|x| x.collect()).map_err(|e| e.to_string())?
            };
            let mut dbv = dbv;
            {
                let mut st = c.prepare("SELECT hex(site_id), ordinal FROM crsql_site_id").map_err(|e| e.to_string())?;
                let sites: Vec<String> = st.query_map([], |r| Ok(format!("site {}:{}", r.get::<_, String>(0)?, r.get::<_, i64>(1)?))).and_then(|x| x.collect()).map_err(|e| e.to_string())?;
                dbv.extend(sites);
                let mut st = c.prepare("SELECT hex(actor_id), start, end FROM __corro_bookkeeping_gaps").map_err(|e| e.to_string())?;
                let gaps: Vec<String> = st.query_map([], |r| Ok(format!("gap {}:{}..={}", r.get::<_, String>(0)?, r.get::<_, i64>(1)?, r.get::<_, i64>(2)?))).and_then(|x| x.collect()).map_err(|e| e.to_string())?;
                dbv.extend(gaps);
                dbv.push(format!("wal_bytes {:?}", std::fs::metadata(img.dir.join("corrosion.db-wal")).map(|m| m.len()).ok()));
            }
            (fully_buffered_in(&c).map_err(|e| e.to_string())?, dbv)
        };
        if !fully_buffered.is_empty() {
            bump(stats, "images.with_fully_buffered_unapplied");
        }
        // ---- boot with the real start-up path
        let conf = Config::builder()
            .db_path(img.dir.join("corrosion.db").display().to_string())
            .gossip_addr("127.0.0.1:0".parse().unwrap())
            .api_addr("127.0.0.1:0".parse().unwrap())
            .admin_path(img.dir.join("admin.sock").display().to_string())
            .build()
            .map_err(|e| e.to_string())?;
        let (tripwire, worker, tripwire_tx) = Tripwire::new_simple();
        tokio::spawn(worker);
        let _ = verif::take_log();
        let sched_before = verif::hits("run.apply_scheduled");
        let done_before = verif::hits("apply_loop.done");
        let (agent, bookie, transport, _handles) = start_with_config(conf, tripwire).await.map_err(|e| format!("restart failed: {e}"))?;
        if agent.actor_id() != victim_actor {
            violations.push(("restart/actor-id-changed".into(), json!({})));
        }
        let scheduled = verif::hits("run.apply_scheduled") - sched_before;
        *stats.entry("restart.apply_scheduled".into()).or_insert(0) += scheduled;
        let restarted = generate_sync(&bookie, agent.actor_id()).await;
        let history_log = ex.log.clone();
        let ctx = |extra: Value| {
            json!({
                "image": {"op": img.op, "label": img.label},
                "restarted": render_sync_state(&restarted),
                "live_before_op": render_sync_state(&prev.state),
                "live_after_op": render_sync_state(&post.state),
                "own_acked_before": prev.own_acked, "own_acked_after": post.own_acked,
                "detail": extra,
                "crsql_db_versions_in_image": image_db_versions,
                "log": history_log,
            })
        };
        // own versions
        let own_head = restarted.heads.get(&victim_actor).map(|x| x.0).unwrap_or(0);
        let expected_own = if img.label == "local.after_commit" { post.own_acked } else { prev.own_acked };
        if own_head < expected_own {
            violations.push(("durability/acknowledged-local-transaction-lost-after-restart".into(), ctx(json!({"own_head_after_restart": own_head, "acknowledged": expected_own}))));
        }
        if own_head > post.own_acked {
            violations.push(("durability/own-head-beyond-anything-committed".into(), ctx(json!({"own_head_after_restart": own_head}))));
        }
        if restarted.need.contains_key(&victim_actor) || restarted.partial_need.contains_key(&victim_actor) {
            violations.push(("durability/gap-in-own-versions-after-restart".into(), ctx(json!({}))));
        }
        // foreign actors: held(prev) ⊆ held(restarted) ⊆ held(post)
        let (hp, hr, ho) = (held_sets(&prev.state), held_sets(&restarted), held_sets(&post.state));
        let mut differs_from_prev = false;
        for a in ho.keys().chain(hr.keys()).collect::<BTreeSet<_>>() {
            if *a == victim_actor {
                continue;
            }
            let e = BTreeSet::new();
            let (p, r, o) = (hp.get(a).unwrap_or(&e), hr.get(a).unwrap_or(&e), ho.get(a).unwrap_or(&e));
            if p != r {
                differs_from_prev = true;
            }
            if let Some(x) = r.difference(o).next() {
                violations.push((
                    "safety/version-advertised-as-held-after-restart-whose-storing-transaction-had-not-committed".into(),
                    ctx(json!({"actor": a.to_string(), "version": x})),
                ));
            }
            if p.difference(r).next().is_some() {
                // allowed by the statement (a version the node no longer claims is simply
                // beyond its head / needed again and will be re-fetched); recorded only
                bump(stats, "restart.version_held_before_crash_no_longer_claimed(allowed)");
            }
        }
        // completely buffered versions: scheduled and applied
        if (scheduled as usize) < fully_buffered.len() {
            violations.push((
                "restart/completely-buffered-version-not-scheduled-for-apply".into(),
                ctx(json!({"fully_buffered_in_image": fully_buffered.len(), "scheduled": scheduled})),
            ));
        }
        let deadline = Instant::now() + Duration::from_secs(60);
        while verif::hits("apply_loop.done") - done_before < scheduled {
            if Instant::now() > deadline {
                return Err("restarted apply loop did not finish the scheduled versions within 60s".into());
            }
            tokio::time::sleep(Duration::from_millis(3)).await;
        }
        let nontrivial = differs_from_prev || !fully_buffered.is_empty() || img.label == "local.after_commit";
        cases.push((hash_str(&format!("{:?}|{}|{}", &ex.log[..ex.log.len().min(img.op + 20)], img.op, img.label)), nontrivial));

        // ---- continued operation converges: real sync with the origins, both directions
        let mut converged = false;
        let mut triggers_after_restart = 0u64;
        // F15 is transient on the serving side: a version holds two changes with one seq only
        // until a later version takes the synthesized sentinel over, so it is looked for at
        // every session, not only at the end
        let mut dup_seen: BTreeSet<(String, i64)> = BTreeSet::new();
        for _round in 0..5 {
            for o in 0..n_orig {
                {
                    let c = ex.nodes[o].ro().map_err(|e| e.to_string())?;
                    dup_seen.extend(super::versions_with_duplicate_seq(&c).map_err(|e| e.to_string())?);
                }
                let st = generate_sync(&bookie, agent.actor_id()).await;
                let peer = (ex.nodes[o].actor(), ex.nodes[o].gossip_addr);
                let mut ok = false;
                for _ in 0..4 {
                    match parallel_sync(&agent, &transport, vec![peer], st.clone()).await {
                        Ok(_) => {
                            ok = true;
                            break;
                        }
                        Err(_) => tokio::time::sleep(Duration::from_millis(50)).await,
                    }
                }
                if !ok {
                    return Err("sync from restarted node kept failing".into());
                }
                // FIFO barrier: a changeset of the node's own actor is ignored by the ingest loop
                let barrier_before = verif::hits("hc.own_actor_ignored");
                agent
                    .tx_changes()
                    .send((
                        ChangeV1 {
                            actor_id: agent.actor_id(),
                            changeset: Changeset::Empty {
                                versions: CrsqlDbVersion(1)..=CrsqlDbVersion(1),
                                ts: None,
                            },
                        },
                        ChangeSource::Sync,
                    ))
                    .await
                    .map_err(|e| e.to_string())?;
                let deadline = Instant::now() + Duration::from_secs(60);
                while verif::hits("hc.own_actor_ignored") == barrier_before {
                    if Instant::now() > deadline {
                        return Err("barrier changeset not consumed by the restarted ingest loop".into());
                    }
                    tokio::time::sleep(Duration::from_millis(2)).await;
                }
                wait_ingest_idle().await?;
                // versions this session completed in the buffer are applied by the agent's own
                // apply loop: wait for exactly the triggers the hook announced for this node
                ex.tally.update();
                if let Some(c) = ex.tally.apply_triggers.remove(&agent.actor_id().to_string()) {
                    triggers_after_restart += c;
                }
                let deadline = Instant::now() + Duration::from_secs(90);
                while verif::hits("apply_loop.done") - done_before < scheduled + triggers_after_restart {
                    if Instant::now() > deadline {
                        return Err("restarted apply loop did not finish the versions completed by sync within 90s".into());
                    }
                    tokio::time::sleep(Duration::from_millis(3)).await;
                }
                // origin learns from the restarted node
                let (ra, raddr) = (agent.actor_id(), agent.gossip_addr());
                let got = ex.nodes[o].sync_from(ra, raddr).await.unwrap_or_default();
                let batch: Vec<Msg> = got.into_iter().map(|(c, s)| Msg { change: c, src: s }).collect();
                ex.deliver(o, batch).await?;
                ex.apply(o).await?;
            }
            // origins among themselves
            if n_orig == 2 {
                for (a, b) in [(0usize, 1usize), (1, 0)] {
                    ex.sync(a, b).await?;
                    let q: Vec<Msg> = std::mem::take(&mut ex.inflight[a]);
                    ex.deliver(a, q).await?;
                    ex.apply(a).await?;
                }
            }
            // fixpoint?
            let want = ref_by_own.get(&own_head.min(post.own_acked)).cloned();
            let rc = agent.pool().client_dedicated_readonly().map_err(|e| e.to_string())?;
            let (rt, rcells) = (tables_digest(&rc, &TABLES).map_err(|e| e.to_string())?, cells_digest(&rc).map_err(|e| e.to_string())?);
            if let Some((wt, wc)) = want
                && rt == wt
                && rcells == wc
            {
                converged = true;
                break;
            }
        }
        if converged {
            bump(stats, "restart.converged");
        } else {
            // known root cause F15? (versions with changes sharing a seq)
            let rc = agent.pool().client_dedicated_readonly().map_err(|e| e.to_string())?;
            let mut dup = super::versions_with_duplicate_seq(&rc).map_err(|e| e.to_string())?;
            // every node of the execution, the live victim included: it relayed its versions
            // to the origins during the history (F15 loses the change at the relay)
            for o in 0..ex.nodes.len() {
                let c = ex.nodes[o].ro().map_err(|e| e.to_string())?;
                dup.extend(super::versions_with_duplicate_seq(&c).map_err(|e| e.to_string())?);
            }
            dup.extend(dup_seen.iter().cloned());
            let sig = if dup.is_empty() {
                "convergence/restarted-node-does-not-converge-with-reference-merge"
            } else {
                "convergence/change-sharing-a-seq-with-resurrection-sentinel-not-relayed"
            };
            if std::env::var_os("VH_C06_DEBUG").is_some() {
                let q = r#"SELECT "table", hex(pk), cid, quote(val), col_version, db_version, seq, hex(site_id), cl FROM crsql_changes WHERE "table" = 't1' ORDER BY 2, 3"#;
                let dump = |name: &str, c: &rusqlite::Connection| {
                    if let Ok(mut st) = c.prepare(q) {
                        let rows: Vec<String> = st
                            .query_map([], |r| Ok(format!("{} {} {} {} cv{} dbv{} seq{} site{} cl{}", r.get::<_, String>(0)?, r.get::<_, String>(1)?, r.get::<_, String>(2)?, r.get::<_, String>(3)?.chars().take(24).collect::<String>(), r.get::<_, i64>(4)?, r.get::<_, i64>(5)?, r.get::<_, i64>(6)?, &r.get::<_, String>(7)?[..6], r.get::<_, i64>(8)?)))
                            .map(|it| it.filter_map(Result::ok).collect())
                            .unwrap_or_default();
                        for r in rows {
                            eprintln!("DBG {name} {r}");
                        }
                    }
                };
                dump("restarted", &rc);
                for o in 0..n_orig {
                    if let Ok(c) = ex.nodes[o].ro() {
                        dump(&format!("origin{o}"), &c);
                    }
                }
            }
            let final_state = generate_sync(&bookie, agent.actor_id()).await;
            let (rt, _) = (tables_digest(&rc, &TABLES).map_err(|e| e.to_string())?, ());
            let want = ref_by_own.get(&own_head.min(post.own_acked)).cloned();
            let mut diff = vec![];
            if let Some((wt, _)) = want {
                for (t, rows) in rt.iter() {
                    let w = wt.get(t).cloned().unwrap_or_default();
                    for r in rows.iter().filter(|r| !w.contains(r)).take(4) {
                        diff.push(format!("{t}: only restarted {r:?}"));
                    }
                    for r in w.iter().filter(|r| !rows.contains(r)).take(4) {
                        diff.push(format!("{t}: only reference {r:?}"));
                    }
                }
            }
            let gaps: Vec<String> = {
                let mut st = rc.prepare("SELECT hex(actor_id), start, end FROM __corro_bookkeeping_gaps").map_err(|e| e.to_string())?;
                st.query_map([], |r| Ok(format!("{}:{}..={}", r.get::<_, String>(0)?, r.get::<_, i64>(1)?, r.get::<_, i64>(2)?))).and_then(|x| x.collect()).map_err(|e| e.to_string())?
            };
            let sites: Vec<String> = {
                let mut st = rc.prepare("SELECT hex(site_id), ordinal FROM crsql_site_id").map_err(|e| e.to_string())?;
                st.query_map([], |r| Ok(format!("{}:{}", r.get::<_, String>(0)?, r.get::<_, i64>(1)?))).and_then(|x| x.collect()).map_err(|e| e.to_string())?
            };
            violations.push((sig.into(), ctx(json!({"duplicate_seq_versions": dup.len(), "final_state_of_restarted": render_sync_state(&final_state), "table_diff": diff, "gap_rows": gaps, "crsql_site_id": sites}))));
        }
        // origins must not have been fed anything bogus
        let _ = tripwire_tx.send(()).await;
        drop((agent, bookie, transport));
        // origins now know victim versions up to this image's own head; later images with a
        // smaller own head would disagree with them, so restore is not attempted: images are
        // booted in increasing own-head order below (see sort) and the reference is per own head.
    }
    let h: Vec<(u64, bool)> = cases;
    let Exec { nodes, reference, .. } = ex;
    for nd in nodes {
        drop(nd.shutdown().await);
    }
    drop(reference.shutdown().await);
    tokio::time::sleep(Duration::from_millis(20)).await;
    Ok((violations, h))
}

fn run(ctx: &mut Ctx) {
    std::panic::set_hook(Box::new(|_| {}));
    let rt = tokio::runtime::Builder::new_multi_thread().worker_threads(4).enable_all().build().unwrap();
    klukai_types::verif::set_record(true);
    let target = ctx.tier.pick(300u64, 100_000u64);
    let max_images = ctx.tier.pick(6usize, 40usize);
    let only: Option<u64> = ctx.extra.iter().position(|a| a == "--exec-seed").and_then(|p| ctx.extra.get(p + 1)).and_then(|s| s.parse().ok());
    let mut i = 0u64;
    while i < target && ctx.time_left() {
        i += 1;
        let mut seed = ctx.seed.wrapping_mul(1_000_003).wrapping_add((ctx.worker as u64) << 40).wrapping_add(i);
        if let Some(o) = only {
            if i > 1 || ctx.worker != 0 {
                break;
            }
            seed = o;
        }
        let mut stats = BTreeMap::new();
        let res = rt.block_on(async { tokio::time::timeout(Duration::from_secs(600), one_execution(seed, &mut stats, max_images)).await });
        for (k, v) in stats {
            ctx.stat(&k, v);
        }
        match res {
            Err(_) => ctx.inconclusive(format!("execution seed {seed} exceeded the 600s watchdog")),
            Ok(Err(e)) => ctx.inconclusive(format!("execution seed {seed}: {e}")),
            Ok(Ok((violations, cases))) => {
                ctx.stat("histories", 1);
                let (n, nt_n) = (cases.len(), cases.iter().filter(|c| c.1).count());
                for (h, nt) in cases {
                    ctx.exec(h, nt);
                }
                if nt_n > 0 {
                    ctx.sample(|| json!({"exec_seed": seed, "crash_images_booted_and_judged": n, "of_them_between_commit_and_in_memory_update_or_with_unapplied_buffered_version": nt_n}));
                }
                for (sig, mut d) in violations {
                    d["exec_seed"] = json!(seed);
                    ctx.violation(sig, d);
                }
            }
        }
    }
}
