//! C02 — advertised sync state is an exact, durable summary of what a node holds.
//! Layer 2: the real ingest glue on a real node, compared after every call with a
//! set model kept by the harness and with the state rebuilt from the database.

use std::collections::{BTreeMap, BTreeSet, HashMap};

use klukai_types::{
    actor::ActorId,
    agent::{BookedVersions, Bookie},
    base::CrsqlDbVersion,
    broadcast::{ChangeSource, ChangeV1, Changeset},
    sync::{SyncStateV1, generate_sync},
};
use rand::{Rng, seq::SliceRandom};
use rangemap::RangeInclusiveSet;
use serde_json::{Value, json};

use super::{
    book_digest,
    c01::{Exec, Msg, rechunk},
    changeset_brief, render_sync_state,
};
use crate::{
    Check,
    common::{CheckSpec, Ctx, chance, hash_str},
    pure,
};

pub fn check() -> Check {
    Check {
        spec: CheckSpec {
            prop: "C02",
            level: "exploration",
            rule: "layer 1: sequences of snapshot->insert_db(range set)->commit/rollback and reloads over versions 1..=24 on the real BookedVersions + gap table, all single-range sequences up to length 3 over versions 1..=6 enumerated, compared with a set model after every step; layer 2: a real node fed through process_multiple_changes with the chunks of 1-2 real origins (complete versions, partial chunks in any order, re-chunked, duplicated, omitted, empties for never-delivered versions) and buffered applies/clears; after EVERY call the advertised generate_sync is compared with the harness's delivery record (held/need/partial classes exact, missing seq ranges exact) and with generate_sync over BookedVersions::from_conn of the database; non-trivial = sequence/execution in which a gap or a partial existed at some step; distinct by hash of the ops / delivery log",
            assumptions: &[
                "an Empty changeset is only generated for versions the node holds nothing of (an Empty for a partially held version is ambiguous in the statement and left to C03's discard clause)",
                "a fully buffered, not yet applied version counts as held (it is durably stored and can be served)",
            ],
            min_nontrivial: 300,
            required_stats: &["l1.sequences", "l1.gap_rows_compared", "l2.calls_compared", "l2.states_with_need", "l2.states_with_partial", "l2.reload_compared"],
        },
        budget: (50, 900),
        workers: (12, 14),
        run,
    }
}

#[derive(Default, Clone)]
struct ActorModel {
    known: BTreeSet<u64>,
    partial: BTreeMap<u64, (RangeInclusiveSet<u64>, u64)>, // version -> (received, last_seq)
    max: u64,
}

impl ActorModel {
    fn apply(&mut self, c: &ChangeV1) {
        match &c.changeset {
            Changeset::Full { version, seqs, last_seq, .. } => {
                let v = version.0;
                self.max = self.max.max(v);
                if self.known.contains(&v) {
                    return;
                }
                if seqs.start().0 == 0 && seqs.end() == last_seq {
                    self.known.insert(v);
                    self.partial.remove(&v);
                } else {
                    let e = self.partial.entry(v).or_insert_with(|| (RangeInclusiveSet::new(), last_seq.0));
                    e.0.insert(seqs.start().0..=seqs.end().0);
                }
            }
            Changeset::Empty { versions, .. } => {
                for v in versions.start().0..=versions.end().0 {
                    self.known.insert(v);
                    self.partial.remove(&v);
                }
                self.max = self.max.max(versions.end().0);
            }
            Changeset::EmptySet { .. } => {}
        }
    }
}

async fn reloaded_state(node: &super::Node, actors: &[ActorId]) -> Result<SyncStateV1, String> {
    let conn = node.ro().map_err(|e| e.to_string())?;
    let mut map: HashMap<ActorId, BookedVersions> = HashMap::new();
    for a in actors {
        let bv = tokio::task::block_in_place(|| BookedVersions::from_conn(&conn, *a)).map_err(|e| e.to_string())?;
        map.insert(*a, bv);
    }
    let b = Bookie::new(map);
    Ok(generate_sync(&b, node.actor()).await)
}

fn compare(model: &BTreeMap<ActorId, ActorModel>, live: &SyncStateV1, me: ActorId) -> Option<(String, Value)> {
    for (a, m) in model.iter() {
        if *a == me || m.max == 0 {
            continue;
        }
        let head = live.heads.get(a).map(|v| v.0).unwrap_or(0);
        if head != m.max {
            return Some(("exactness/head-differs-from-highest-version-stored".into(), json!({"actor": a.to_string(), "advertised_head": head, "model_head": m.max})));
        }
        let mut need: BTreeSet<u64> = BTreeSet::new();
        for r in live.need.get(a).cloned().unwrap_or_default() {
            for v in r.start().0..=r.end().0 {
                need.insert(v);
            }
        }
        let partial = live.partial_need.get(a).cloned().unwrap_or_default();
        for v in 1..=m.max {
            let advertised_partial = partial.get(&CrsqlDbVersion(v));
            let in_need = need.contains(&v);
            if in_need && advertised_partial.is_some() {
                return Some(("exactness/version-in-two-classes".into(), json!({"actor": a.to_string(), "version": v})));
            }
            let model_known = m.known.contains(&v);
            let model_partial = m.partial.get(&v);
            let model_complete_partial = model_partial.map(|(rec, last)| rec.gaps(&(0..=*last)).next().is_none()).unwrap_or(false);
            if model_known || model_complete_partial {
                if in_need || advertised_partial.is_some() {
                    return Some((
                        "exactness/stored-version-advertised-as-needed-or-partial".into(),
                        json!({"actor": a.to_string(), "version": v, "in_need": in_need, "partial": format!("{advertised_partial:?}")}),
                    ));
                }
            } else if let Some((rec, last)) = model_partial {
                let want: Vec<(u64, u64)> = rec.gaps(&(0..=*last)).map(|r| (*r.start(), *r.end())).collect();
                let got: Option<Vec<(u64, u64)>> = advertised_partial.map(|rs| {
                    let mut s = RangeInclusiveSet::new();
                    for r in rs {
                        s.insert(r.start().0..=r.end().0);
                    }
                    s.iter().map(|r| (*r.start(), *r.end())).collect()
                });
                if got.as_ref() != Some(&want) {
                    return Some((
                        if got.is_none() && !in_need {
                            "exactness/partially-received-version-advertised-as-held"
                        } else {
                            "exactness/partial-missing-ranges-differ-from-received-chunks"
                        }
                        .into(),
                        json!({"actor": a.to_string(), "version": v, "advertised_missing": got, "expected_missing": want, "in_need": in_need}),
                    ));
                }
            } else {
                // nothing stored for v
                if !in_need {
                    return Some((
                        "exactness/version-never-stored-advertised-as-held".into(),
                        json!({"actor": a.to_string(), "version": v, "partial": format!("{advertised_partial:?}")}),
                    ));
                }
            }
        }
    }
    None
}

pub async fn one_execution(seed: u64, stats: &mut BTreeMap<String, u64>) -> Result<(Vec<(String, Value)>, String, bool), String> {
    use rand::SeedableRng;
    let mut rng = rand::rngs::StdRng::seed_from_u64(seed);
    let n_orig = rng.random_range(1..=2usize);
    let n = n_orig + 1;
    let mut ex = Exec::new(n).await.map_err(|e| format!("setup: {e}"))?;
    let r = n - 1; // receiver
    let me = ex.nodes[r].actor();
    let mut model: BTreeMap<ActorId, ActorModel> = BTreeMap::new();
    let mut violations = vec![];
    let mut nontrivial = false;

    // origins produce versions; the receiver's inbox is ex.inflight[r]
    for o in 0..n_orig {
        for _ in 0..rng.random_range(3..=9) {
            ex.do_tx(o, &mut rng, true).await?;
        }
    }
    // keep only the receiver's messages
    let mut inbox: Vec<Msg> = std::mem::take(&mut ex.inflight[r]);
    for q in ex.inflight.iter_mut() {
        q.clear();
    }
    // synthesize empties for some versions that will never be delivered
    let mut never: BTreeSet<(ActorId, u64)> = BTreeSet::new();
    for a in ex.acked.iter() {
        if chance(&mut rng, 120) {
            never.insert((ex.nodes[a.node].actor(), a.version));
        }
    }
    inbox.retain(|m| match &m.change.changeset {
        Changeset::Full { version, .. } => !never.contains(&(m.change.actor_id, version.0)),
        _ => true,
    });
    for (a, v) in never.iter() {
        if chance(&mut rng, 500) {
            inbox.push(Msg {
                change: ChangeV1 {
                    actor_id: *a,
                    changeset: Changeset::Empty {
                        versions: CrsqlDbVersion(*v)..=CrsqlDbVersion(*v),
                        ts: None,
                    },
                },
                src: ChangeSource::Sync,
            });
        }
    }
    // re-chunk some, duplicate some, drop some
    let mut extra = vec![];
    inbox.retain_mut(|m| {
        if chance(&mut rng, 250)
            && let Some((a, b)) = rechunk(&mut rng, &m.change)
        {
            extra.push(Msg { change: a, src: m.src });
            extra.push(Msg { change: b, src: m.src });
            return false;
        }
        if chance(&mut rng, 100) {
            return false; // omitted
        }
        if chance(&mut rng, 100) {
            extra.push(Msg {
                change: m.change.clone(),
                src: m.src,
            });
        }
        true
    });
    // second-level re-chunk for more overlap cases
    for m in extra.iter_mut() {
        if chance(&mut rng, 200)
            && let Some((a, _b)) = rechunk(&mut rng, &m.change)
        {
            m.change = a;
        }
    }
    inbox.extend(extra);
    inbox.shuffle(&mut rng);

    let actors: Vec<ActorId> = (0..n).map(|i| ex.nodes[i].actor()).collect();
    let mut step = 0;
    while !inbox.is_empty() {
        step += 1;
        let k = rng.random_range(1..=5usize).min(inbox.len());
        let batch: Vec<Msg> = inbox.drain(..k).collect();
        // (failing storing transactions are exercised in layer 1 (rollback) and by C06's crash images;
        // an interrupt timeout of zero is racy: its stray interrupt can hit a later, unrelated statement)
        let fail = false;
        let brief: Vec<String> = batch.iter().map(|m| changeset_brief(&m.change)).collect();
        if fail {
            // a storing transaction that does not commit: interrupt timeout of zero
            *stats.entry("l2.failed_tx_injected".into()).or_insert(0) += 1;
            let before = canon(&ex.nodes[r].sync_state().await);
            let before_db = {
                let c = ex.nodes[r].ro().map_err(|e| e.to_string())?;
                book_digest(&c).map_err(|e| e.to_string())?
            };
            ex.log.push(format!("deliver (interrupt timeout 0) -> n{r}: {brief:?}"));
            let res = ex.nodes[r]
                .deliver_with_timeout(batch.iter().map(|m| (m.change.clone(), m.src)).collect(), std::time::Duration::ZERO)
                .await;
            ex.log.push(format!("  -> {}", if res.is_ok() { "ok".to_string() } else { format!("{res:?}") }));
            ex.collect_hooks();
            let after = canon(&ex.nodes[r].sync_state().await);
            let after_db = {
                let c = ex.nodes[r].ro().map_err(|e| e.to_string())?;
                book_digest(&c).map_err(|e| e.to_string())?
            };
            match res {
                Err(_) => {
                    *stats.entry("l2.failed_tx_observed".into()).or_insert(0) += 1;
                    if before != after || before_db != after_db {
                        violations.push((
                            "durability/failed-transaction-changed-advertised-or-persisted-state".into(),
                            json!({"batch": brief, "before": before, "after": after, "log": ex.log}),
                        ));
                    }
                    // the messages are still undelivered
                    inbox.extend(batch);
                    inbox.shuffle(&mut rng);
                    continue;
                }
                Ok(()) => {
                    // the call got through (everything was already known or the timeout did not bite)
                    for m in batch.iter() {
                        model.entry(m.change.actor_id).or_default().apply(&m.change);
                    }
                }
            }
        } else {
            for m in batch.iter() {
                model.entry(m.change.actor_id).or_default().apply(&m.change);
            }
            ex.deliver(r, batch).await?;
        }
        if chance(&mut rng, 300) {
            ex.apply(r).await?;
        }
        if chance(&mut rng, 200) {
            ex.clear(r).await?;
        }
        // ---- compare
        let live = ex.nodes[r].sync_state().await;
        *stats.entry("l2.calls_compared".into()).or_insert(0) += 1;
        if !live.need.is_empty() {
            *stats.entry("l2.states_with_need".into()).or_insert(0) += 1;
            nontrivial = true;
        }
        if !live.partial_need.is_empty() {
            *stats.entry("l2.states_with_partial".into()).or_insert(0) += 1;
            nontrivial = true;
        }
        if let Some((sig, mut d)) = compare(&model, &live, me) {
            d["step"] = json!(step);
            d["advertised"] = render_sync_state(&live);
            d["log"] = json!(ex.log);
            violations.push((sig, d));
            break;
        }
        let mut disk = reloaded_state(&ex.nodes[r], &actors).await?;
        *stats.entry("l2.reload_compared".into()).or_insert(0) += 1;
        // Buffered rows of a version that was meanwhile stored from a complete changeset are
        // removed by the background clear loop; until the harness lets that loop run they are
        // legitimately still on disk. Tolerate exactly those: a rebuilt partial entry for
        // (actor, version) that the live state holds fully and whose clear request is pending.
        ex.nodes[r].poll_clears();
        let pending = ex.nodes[r].pending_clears.clone();
        let mut tolerated = 0u64;
        for (a, m) in disk.partial_need.iter_mut() {
            let live_need: Vec<_> = live.need.get(a).cloned().unwrap_or_default();
            m.retain(|v, _| {
                let live_partial = live.partial_need.get(a).map(|x| x.contains_key(v)).unwrap_or(false);
                let live_needed = live_need.iter().any(|r| r.contains(v));
                let clear_pending = pending.iter().any(|(pa, pr)| pa == a && pr.contains(v));
                let tolerate = !live_partial && !live_needed && clear_pending;
                if tolerate {
                    tolerated += 1;
                }
                !tolerate
            });
        }
        disk.partial_need.retain(|_, m| !m.is_empty());
        *stats.entry("l2.reload_stale_buffer_rows_with_pending_clear_tolerated".into()).or_insert(0) += tolerated;
        if canon(&disk) != canon(&live) {
            let dbv: Vec<String> = {
                let c = ex.nodes[r].ro().map_err(|e| e.to_string())?;
                let mut st = c.prepare("SELECT hex(site_id), db_version FROM crsql_db_versions").map_err(|e| e.to_string())?;
                st.query_map([], |r| Ok(format!("{}:{}", r.get::<_, String>(0)?, r.get::<_, i64>(1)?)))
                    .and_then(|x| x.collect())
                    .map_err(|e| e.to_string())?
            };
            violations.push((
                "durability/state-rebuilt-from-database-differs-from-live".into(),
                json!({"step": step, "live": render_sync_state(&live), "rebuilt": render_sync_state(&disk), "crsql_db_versions": dbv, "pending_clears": format!("{pending:?}"), "log": ex.log}),
            ));
            break;
        }
        // persisted gap rows: disjoint, non-adjacent, inside 1..=head, equal to advertised need
        {
            let c = ex.nodes[r].ro().map_err(|e| e.to_string())?;
            let b = book_digest(&c).map_err(|e| e.to_string())?;
            let mut by_actor: BTreeMap<String, Vec<(u64, u64)>> = BTreeMap::new();
            for (a, s, e) in b.gaps.iter() {
                by_actor.entry(a.clone()).or_default().push((*s, *e));
            }
            for (a, rows) in by_actor.iter() {
                for w in rows.windows(2) {
                    if w[1].0 <= w[0].1 + 1 {
                        violations.push(("persisted/gap-rows-overlap-or-adjacent".into(), json!({"actor": a, "rows": rows, "log": ex.log})));
                    }
                }
                let aid = actors.iter().find(|x| super::hex(x.as_bytes()) == *a);
                let head = aid.and_then(|x| live.heads.get(x)).map(|v| v.0).unwrap_or(0);
                if rows.iter().any(|(s, e)| *s < 1 || *e > head || s > e) {
                    violations.push(("persisted/gap-row-outside-1..head".into(), json!({"actor": a, "rows": rows, "head": head, "log": ex.log})));
                }
                let adv: Vec<(u64, u64)> = aid.and_then(|x| live.need.get(x)).map(|v| v.iter().map(|r| (r.start().0, r.end().0)).collect()).unwrap_or_default();
                if adv != *rows {
                    violations.push(("persisted/gap-rows-differ-from-advertised-need".into(), json!({"actor": a, "rows": rows, "advertised": adv, "log": ex.log})));
                }
            }
        }
        if !violations.is_empty() {
            break;
        }
    }
    ex.tally.update();
    for (k, v) in ex.tally.piv_cases.iter() {
        *stats.entry(format!("piv.case.{k}")).or_insert(0) += *v;
    }
    for p in ex.panics.iter() {
        if !p.contains("but seqs range is") {
            violations.push(("ingest/panic".into(), json!({"panic": p, "log": ex.log})));
        }
    }
    let h = format!("{:?}", ex.log);
    let Exec { nodes, reference, .. } = ex;
    for nd in nodes {
        drop(nd.shutdown().await);
    }
    drop(reference.shutdown().await);
    Ok((violations, h, nontrivial))
}

fn canon(s: &SyncStateV1) -> String {
    // partial_need ranges canonicalised (order of ranges inside a version is not significant)
    let mut v = render_sync_state(s);
    if let Some(pn) = v.get_mut("partial_need").and_then(|p| p.as_object_mut()) {
        for (_, m) in pn.iter_mut() {
            if let Some(m) = m.as_object_mut() {
                for (_, rs) in m.iter_mut() {
                    if let Some(a) = rs.as_array_mut() {
                        a.sort_by_key(|x| x[0].as_u64());
                    }
                }
            }
        }
    }
    v.to_string()
}

fn run(ctx: &mut Ctx) {
    std::panic::set_hook(Box::new(|_| {}));
    // layer 1 gets a third of the budget
    let full = ctx.budget;
    ctx.budget = full / 3;
    pure::c02::run_l1(ctx);
    ctx.budget = full;

    let rt = tokio::runtime::Builder::new_multi_thread().worker_threads(3).enable_all().build().unwrap();
    klukai_types::verif::set_record(true);
    let target = ctx.tier.pick(400u64, 100_000u64);
    let only: Option<u64> = ctx.extra.iter().position(|a| a == "--exec-seed").and_then(|p| ctx.extra.get(p + 1)).and_then(|s| s.parse().ok());
    let mut i = 0u64;
    while i < target && ctx.time_left() {
        i += 1;
        let mut seed = ctx.seed.wrapping_mul(1_000_003).wrapping_add((ctx.worker as u64) << 40).wrapping_add(i);
        if let Some(o) = only {
            if i > 1 || ctx.worker != 0 {
                break;
            }
            seed = o;
        }
        let mut stats = BTreeMap::new();
        let res = rt.block_on(async { tokio::time::timeout(std::time::Duration::from_secs(300), one_execution(seed, &mut stats)).await });
        for (k, v) in stats {
            ctx.stat(&k, v);
        }
        match res {
            Err(_) => ctx.inconclusive(format!("execution seed {seed} exceeded the 300s watchdog")),
            Ok(Err(e)) => ctx.inconclusive(format!("execution seed {seed}: {e}")),
            Ok(Ok((violations, h, nontrivial))) => {
                ctx.exec(hash_str(&h), nontrivial);
                for (sig, mut d) in violations {
                    d["exec_seed"] = json!(seed);
                    ctx.violation(sig, d);
                }
            }
        }
    }
}
