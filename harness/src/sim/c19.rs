//! C19 — backup and restore reproduce the replicated data with correct authorship.
//!
//! Part 1 (authorship): a real source node holding changes authored by itself and by
//! other actors (delivered through the real ingest path), deletions included, is backed
//! up with the real `corrosion backup` command and restored with the real
//! `corrosion restore` command onto an absent path or onto the files of another real
//! node (with and without keeping that node's actor id); a real node is then started on
//! the result and its `crsql_changes` (values, versions, causal lengths, authoring site
//! ids) are compared with the source's.
//!
//! Part 2 (restore over a live file): `sqlite3_restore::restore` replaces a database that
//! reader *processes* are hammering; every read that succeeds must be entirely old or
//! entirely new.

use std::{
    collections::BTreeMap,
    path::{Path, PathBuf},
    process::{Command, Stdio},
    time::Duration,
};

use klukai_types::{actor::ActorId, api::Statement, broadcast::ChangeV1};
use rand::{Rng, SeedableRng, seq::SliceRandom};
use serde_json::{Value, json};

use super::{
    Node, NodeOpts, new_node, new_node_in,
    subs::{self, ExecOut, Pump, TxInfo},
};
use crate::{
    Check,
    common::{CheckSpec, Ctx},
};

pub const C19_SCHEMA: &str = r#"
CREATE TABLE p (id INTEGER NOT NULL PRIMARY KEY, grp INTEGER, name TEXT NOT NULL DEFAULT '', v INTEGER);
CREATE TABLE c (pid INTEGER NOT NULL, k TEXT NOT NULL, val INTEGER, note TEXT, PRIMARY KEY (pid, k));
CREATE TABLE g (gid INTEGER NOT NULL PRIMARY KEY, label TEXT, w INTEGER);
"#;

pub fn check() -> Check {
    Check {
        spec: CheckSpec {
            prop: "C19",
            level: "exploration",
            rule: "authorship execution = real source node with 3-12 transactions of its own and 2-8 changesets authored by one or two other real nodes (complete and chunked, deletions and re-inserts included), backed up by the real `corrosion backup`, restored by the real `corrosion restore` onto (a) an absent path, (b) the files of another real node that has data, members rows and a subscription directory, without flag / with --self-actor-id / with --actor-id; a real node is started on the restored files; oracle: the backup file has no ordinal 0, no clock row with site ordinal 0, no members rows; the restored node's crsql_changes equals the source's as a map (table,pk,cid) -> (value, col_version, causal length, db_version, seq, authoring site id); the node's own actor id is the one asked for; the destination's subscription directory is gone; and a further write on the restored node is attributed to its own actor. live-restore execution = old database (WAL with uncheckpointed frames, or rollback journal; 50-5000 rows) replaced by a new one of a different size through sqlite3_restore::restore while 2-4 reader processes read two tables in one read transaction in a loop (some reopening the file every time); oracle: every successful read is entirely old or entirely new, and after the call the file is entirely new (integrity_check ok), or entirely old if the call failed; non-trivial = authorship execution with changes of >= 2 authors incl. a deletion, or live-restore execution in which readers succeeded before and after the replacement; distinct by hash of the scenario",
            assumptions: &[
                "the commands are run as subprocesses of the `corrosion` binary built from /repo's working tree; the nodes are real in-process nodes shut down before their files are touched by restore",
                "readers are separate processes (SQLite's POSIX locks are per process); a read that returns an error counts as refused",
            ],
            min_nontrivial: 10,
            required_stats: &["backups", "restores", "restore.onto_absent", "restore.onto_existing", "restore.self_actor_id", "cells_compared", "authors_in_backup", "live.restores", "live.reads_ok", "live.reads_refused", "live.reads_old", "live.reads_new"],
        },
        budget: (70, 900),
        workers: (8, 14),
        run,
    }
}

fn bin() -> Result<String, String> {
    std::env::var("VH_CORROSION_BIN").map_err(|_| "VH_CORROSION_BIN not set (run through /verif/check)".to_string())
}

fn write_config(dir: &Path, name: &str, db: &Path) -> Result<PathBuf, String> {
    let p = dir.join(name);
    let s = format!(
        "[db]\npath = \"{}\"\n\n[api]\naddr = \"127.0.0.1:0\"\n\n[gossip]\naddr = \"127.0.0.1:0\"\nplaintext = true\n\n[admin]\npath = \"{}\"\n",
        db.display(),
        dir.join("admin-not-there.sock").display()
    );
    std::fs::write(&p, s).map_err(|e| e.to_string())?;
    Ok(p)
}

fn run_cmd(args: &[String]) -> Result<(i32, String), String> {
    let out = Command::new(bin()?).args(args).env("RUST_LOG", "warn").stdin(Stdio::null()).output().map_err(|e| format!("spawn corrosion: {e}"))?;
    Ok((out.status.code().unwrap_or(-1), format!("{}{}", String::from_utf8_lossy(&out.stdout), String::from_utf8_lossy(&out.stderr))))
}

type Cells = BTreeMap<(String, String, String), (String, i64, i64, i64, i64, String)>;

/// (table, pk, cid) -> (val, col_version, cl, db_version, seq, authoring site id)
fn cells(conn: &rusqlite::Connection) -> Result<Cells, String> {
    let mut st = conn
        .prepare(r#"SELECT "table", hex(pk), cid, quote(val), col_version, cl, db_version, seq, hex(site_id) FROM crsql_changes"#)
        .map_err(|e| e.to_string())?;
    let rows = st
        .query_map([], |r| Ok(((r.get::<_, String>(0)?, r.get::<_, String>(1)?, r.get::<_, String>(2)?), (r.get::<_, String>(3)?, r.get::<_, i64>(4)?, r.get::<_, i64>(5)?, r.get::<_, i64>(6)?, r.get::<_, i64>(7)?, r.get::<_, String>(8)?))))
        .map_err(|e| e.to_string())?;
    let mut out = Cells::new();
    for r in rows {
        let (k, v) = r.map_err(|e| e.to_string())?;
        out.insert(k, v);
    }
    Ok(out)
}

async fn mk_node(idx: usize) -> Result<Node, String> {
    new_node(
        idx,
        NodeOpts {
            serve_sync: false,
            schema: Some(C19_SCHEMA.to_string()),
            ..Default::default()
        },
    )
    .await
    .map_err(|e| e.to_string())
}

async fn stop(node: Node) -> tempfile::TempDir {
    let agent = node.agent.clone();
    let dir = node.shutdown().await;
    agent.subs_manager().drop_handles().await;
    drop(agent);
    klukai_types::spawn::wait_for_all_pending_handles().await;
    dir
}

pub async fn authorship_execution(seed: u64) -> Result<ExecOut, String> {
    let mut rng = rand::rngs::StdRng::seed_from_u64(seed);
    let mut stats: BTreeMap<String, u64> = BTreeMap::new();
    let mut violations: Vec<(String, Value)> = vec![];
    let mut scenario: Vec<String> = vec![];
    macro_rules! stat {
        ($k:expr, $n:expr) => {
            *stats.entry($k.to_string()).or_insert(0) += $n
        };
    }
    let all = ["p", "c", "g"];
    let mut src = mk_node(0).await?;
    let _ = klukai_types::verif::take_log();
    let mut pump = Pump::default();
    // other authors
    let n_others = rng.random_range(1..=2usize);
    let mut others = vec![];
    for i in 0..n_others {
        others.push(mk_node(1 + i).await?);
    }
    let mut had_delete = false;
    for _ in 0..rng.random_range(3..=12) {
        let mut info = TxInfo::default();
        let stmts: Vec<_> = (0..rng.random_range(1..=4)).map(|_| subs::random_stmt(&mut rng, &all, &mut info)).collect();
        had_delete |= info.desc.iter().any(|d| d.starts_with("del"));
        subs::local_tx(&mut src, stmts).await?;
        if rng.random_range(0..2) == 0 {
            let o = rng.random_range(0..others.len());
            let mut info = TxInfo::default();
            let stmts: Vec<_> = (0..rng.random_range(1..=4)).map(|_| subs::random_stmt(&mut rng, &all, &mut info)).collect();
            had_delete |= info.desc.iter().any(|d| d.starts_with("del"));
            let (st, resp) = others[o].tx(stmts).await;
            if st == 200
                && let Some(v) = resp.version
            {
                let mut batch: Vec<ChangeV1> = vec![];
                for c in subs::wait_broadcast(&mut others[o], v).await? {
                    if rng.random_range(0..2) == 0
                        && let Some((a, b)) = super::c01::rechunk(&mut rng, &c)
                    {
                        batch.push(b);
                        batch.push(a);
                    } else {
                        batch.push(c);
                    }
                }
                subs::deliver_and_apply(&mut src, &mut pump, batch).await?;
            }
        }
    }
    // node-local state that must not travel: members rows
    {
        let conn = src.agent.pool().write_priority().await.map_err(|e| e.to_string())?;
        let _ = conn.execute("INSERT OR REPLACE INTO __corro_members (actor_id, address, foca_state) VALUES (randomblob(16), '10.1.1.1:1', '{}')", []);
    }
    let src_actor = src.actor();
    let src_cells = cells(&*src.ro().map_err(|e| e.to_string())?)?;
    let authors: std::collections::BTreeSet<String> = src_cells.values().map(|v| v.5.clone()).collect();
    stat!("authors_in_backup", authors.len() as u64);
    let src_db = src.conf.db.path.clone();
    let work = tempfile::Builder::new().prefix("vh-c19-").tempdir().map_err(|e| e.to_string())?;
    let src_cfg = write_config(work.path(), "source.toml", src_db.as_std_path())?;
    let backup = work.path().join("backup.db");
    // the source stays up while it is backed up (VACUUM INTO of a live database)
    let (code, out) = run_cmd(&["--config".into(), src_cfg.display().to_string(), "backup".into(), backup.display().to_string()])?;
    if code != 0 {
        return Err(format!("corrosion backup exited with {code}: {}", crate::common::truncate(&out, 400)));
    }
    stat!("backups", 1);
    // what is in the backup file
    {
        let b = rusqlite::Connection::open_with_flags(&backup, rusqlite::OpenFlags::SQLITE_OPEN_READ_ONLY).map_err(|e| e.to_string())?;
        let zero: i64 = b.query_row("SELECT COUNT(*) FROM crsql_site_id WHERE ordinal = 0", [], |r| r.get(0)).map_err(|e| e.to_string())?;
        let members: i64 = b.query_row("SELECT COUNT(*) FROM __corro_members", [], |r| r.get(0)).map_err(|e| e.to_string())?;
        let mut clock0 = 0i64;
        for t in ["p", "c", "g"] {
            clock0 += b.query_row(&format!("SELECT COUNT(*) FROM {t}__crsql_clock WHERE site_id = 0"), [], |r| r.get::<_, i64>(0)).map_err(|e| e.to_string())?;
        }
        if zero != 0 || clock0 != 0 {
            violations.push(("backup/still-carries-a-self-ordinal".into(), json!({"site_id_rows_with_ordinal_0": zero, "clock_rows_with_site_ordinal_0": clock0})));
        }
        if members != 0 {
            violations.push(("backup/carries-membership-rows-of-the-source".into(), json!({"rows": members})));
        }
    }

    // destination
    let mode = rng.random_range(0..4);
    let mut dest_actor: Option<ActorId> = None;
    let mut dest_sub_dir: Option<PathBuf> = None;
    let dest_dir: tempfile::TempDir = if mode == 0 {
        scenario.push("onto-absent".into());
        stat!("restore.onto_absent", 1);
        tempfile::Builder::new().prefix("vh-node-").tempdir().map_err(|e| e.to_string())?
    } else {
        scenario.push("onto-existing".into());
        stat!("restore.onto_existing", 1);
        let mut d = mk_node(5).await?;
        for _ in 0..rng.random_range(1..=8) {
            let mut info = TxInfo::default();
            let stmts: Vec<_> = (0..rng.random_range(1..=6)).map(|_| subs::random_stmt(&mut rng, &all, &mut info)).collect();
            subs::local_tx(&mut d, stmts).await?;
        }
        // a subscription of the destination (its directory must not survive the restore)
        let sc = subs::SubsCtx::of(&d);
        let mut conn = subs::subscribe(&d, &sc, "SELECT id, name FROM p", None, false).await?;
        conn.read_snapshot(Duration::from_secs(30)).await?;
        dest_sub_dir = Some(d.conf.db.subscriptions_path().as_std_path().to_path_buf());
        dest_actor = Some(d.actor());
        drop(conn);
        drop(sc);
        stop(d).await
    };
    let dest_db = dest_dir.path().join("corrosion.db");
    let dest_cfg = write_config(work.path(), "dest.toml", &dest_db)?;
    let mut args: Vec<String> = vec!["--config".into(), dest_cfg.display().to_string(), "restore".into(), backup.display().to_string()];
    let mut expect_actor: Option<ActorId> = None;
    match mode {
        2 => {
            args.push("--self-actor-id".into());
            expect_actor = dest_actor;
            scenario.push("--self-actor-id".into());
            stat!("restore.self_actor_id", 1);
        }
        3 => {
            let a = uuid::Uuid::from_u128(seed as u128 * 7919 + 13);
            args.push("--actor-id".into());
            args.push(a.to_string());
            expect_actor = Some(ActorId(a));
            scenario.push("--actor-id".into());
            stat!("restore.actor_id", 1);
        }
        _ => {}
    }
    let (code, out) = run_cmd(&args)?;
    if code != 0 {
        return Err(format!("corrosion restore exited with {code}: {}", crate::common::truncate(&out, 400)));
    }
    stat!("restores", 1);
    if let Some(d) = &dest_sub_dir
        && d.exists()
        && std::fs::read_dir(d).map(|mut i| i.next().is_some()).unwrap_or(false)
    {
        violations.push(("restore/subscriptions-of-the-destination-left-behind".into(), json!({"dir": d.display().to_string()})));
    }

    // a real node on the restored files
    let mut restored = new_node_in(
        6,
        dest_dir,
        NodeOpts {
            serve_sync: false,
            schema: None,
            ..Default::default()
        },
    )
    .await
    .map_err(|e| format!("start on restored files: {e}"))?;
    let got = cells(&*restored.ro().map_err(|e| e.to_string())?)?;
    stat!("cells_compared", src_cells.len() as u64);
    if got != src_cells {
        let mut diff = vec![];
        for (k, v) in src_cells.iter() {
            match got.get(k) {
                None => diff.push(json!({"cell": k, "source": v, "restored": null})),
                Some(g) if g != v => diff.push(json!({"cell": k, "source": v, "restored": g})),
                _ => {}
            }
        }
        for (k, v) in got.iter() {
            if !src_cells.contains_key(k) {
                diff.push(json!({"cell": k, "source": null, "restored": v}));
            }
        }
        let authorship_only = diff.iter().all(|d| d["source"].is_array() && d["restored"].is_array() && d["source"][0] == d["restored"][0] && d["source"][1] == d["restored"][1] && d["source"][2] == d["restored"][2]);
        diff.truncate(6);
        violations.push((
            if authorship_only { "restore/changes-attributed-to-another-actor" } else { "restore/cells-differ-from-the-source" }.into(),
            json!({"scenario": scenario, "source_actor": src_actor.to_string(), "restored_node_actor": restored.actor().to_string(), "differences(val,col_version,cl,db_version,seq,site_id)": diff}),
        ));
    }
    if let Some(a) = expect_actor
        && restored.actor() != a
    {
        violations.push(("restore/node-does-not-keep-the-requested-actor-id".into(), json!({"scenario": scenario, "expected": a.to_string(), "got": restored.actor().to_string()})));
    }
    if expect_actor.is_none() && restored.actor() == src_actor {
        violations.push(("restore/restored-node-took-the-source-actor-id".into(), json!({"scenario": scenario, "actor": src_actor.to_string()})));
    }
    // a further write on the restored node is its own
    let (st, _) = subs::local_tx(&mut restored, vec![Statement::WithParams("INSERT INTO g (gid, label, w) VALUES (?, 'after-restore', 1) ON CONFLICT (gid) DO UPDATE SET label = excluded.label".into(), vec![99i64.into()])]).await?;
    if st == 200 {
        let after = cells(&*restored.ro().map_err(|e| e.to_string())?)?;
        let own = hex_upper(&restored.actor().to_bytes());
        if let Some(v) = after.get(&("g".to_string(), "010963".to_string(), "label".to_string()))
            && v.5 != own
        {
            violations.push(("restore/new-write-on-restored-node-attributed-to-another-actor".into(), json!({"scenario": scenario, "cell_site_id": v.5, "node_actor": own})));
        }
    }
    let nontrivial = authors.len() >= 2 && had_delete;
    let hash = format!("{scenario:?}|{}|{}", src_cells.len(), authors.len());
    let sample = json!({"scenario": scenario, "cells": src_cells.len(), "authors": authors.len()});
    drop(stop(restored).await);
    drop(stop(src).await);
    for o in others {
        drop(stop(o).await);
    }
    Ok(ExecOut {
        violations,
        hash,
        nontrivial,
        stats,
        sample: Some(sample),
    })
}

fn hex_upper(b: &[u8]) -> String {
    b.iter().map(|x| format!("{x:02X}")).collect()
}

// ------------------------------------------------------------------ live restore

fn make_db(path: &Path, wal: bool, rows: usize, generation: i64, leave_wal_frames: bool) -> Result<(), String> {
    let c = rusqlite::Connection::open(path).map_err(|e| e.to_string())?;
    c.execute_batch(&format!("PRAGMA journal_mode = {};", if wal { "WAL" } else { "DELETE" })).map_err(|e| e.to_string())?;
    c.execute_batch("CREATE TABLE marker (id INTEGER PRIMARY KEY, gen INTEGER NOT NULL, pad TEXT); CREATE TABLE marker2 (id INTEGER PRIMARY KEY, gen INTEGER NOT NULL);").map_err(|e| e.to_string())?;
    let half = if leave_wal_frames { rows / 2 } else { rows };
    let ins = |from: usize, to: usize| -> Result<(), String> {
        c.execute_batch("BEGIN").map_err(|e| e.to_string())?;
        for i in from..to {
            c.execute("INSERT INTO marker (id, gen, pad) VALUES (?, ?, ?)", rusqlite::params![i as i64, generation, "x".repeat(100)]).map_err(|e| e.to_string())?;
            c.execute("INSERT INTO marker2 (id, gen) VALUES (?, ?)", rusqlite::params![i as i64, generation]).map_err(|e| e.to_string())?;
        }
        c.execute_batch("COMMIT").map_err(|e| e.to_string())
    };
    ins(0, half)?;
    if wal {
        let _ = c.execute_batch("PRAGMA wal_checkpoint(TRUNCATE);");
        if leave_wal_frames {
            c.execute_batch("PRAGMA wal_autocheckpoint = 0;").map_err(|e| e.to_string())?;
        }
    }
    if half < rows {
        ins(half, rows)?;
    }
    if wal && leave_wal_frames {
        // keep the WAL: leak the connection so that closing does not checkpoint
        std::mem::forget(c);
    }
    Ok(())
}

/// child mode: `vh c19-reader <db> <stop-file> <reopen 0|1>`; prints one line per read
pub fn reader_main(args: &[String]) -> i32 {
    let (db, stop, reopen) = (&args[0], &args[1], args.get(2).map(|s| s == "1").unwrap_or(false));
    let open = || rusqlite::Connection::open_with_flags(db, rusqlite::OpenFlags::SQLITE_OPEN_READ_ONLY | rusqlite::OpenFlags::SQLITE_OPEN_NO_MUTEX);
    let mut conn = open().ok();
    let mut n = 0u64;
    while !Path::new(stop).exists() && n < 2_000_000 {
        n += 1;
        if reopen || conn.is_none() {
            conn = open().ok();
        }
        let Some(c) = conn.as_ref() else {
            println!("E open");
            continue;
        };
        let r = (|| -> rusqlite::Result<(i64, i64, i64, i64, i64, i64)> {
            c.execute_batch("BEGIN")?;
            let a: (i64, i64, i64) = c.query_row("SELECT COUNT(*), COALESCE(MIN(gen), 0), COALESCE(MAX(gen), 0) FROM marker", [], |r| Ok((r.get(0)?, r.get(1)?, r.get(2)?)))?;
            let b: (i64, i64, i64) = c.query_row("SELECT COUNT(*), COALESCE(MIN(gen), 0), COALESCE(MAX(gen), 0) FROM marker2", [], |r| Ok((r.get(0)?, r.get(1)?, r.get(2)?)))?;
            c.execute_batch("COMMIT")?;
            Ok((a.0, a.1, a.2, b.0, b.1, b.2))
        })();
        match r {
            Ok(v) => println!("R {} {} {} {} {} {}", v.0, v.1, v.2, v.3, v.4, v.5),
            Err(e) => {
                let _ = c.execute_batch("ROLLBACK");
                println!("E {}", e.to_string().replace('\n', " "));
                if reopen {
                    conn = None;
                }
            }
        }
    }
    0
}

pub fn live_restore_execution(seed: u64) -> Result<ExecOut, String> {
    let mut rng = rand::rngs::StdRng::seed_from_u64(seed);
    let mut stats: BTreeMap<String, u64> = BTreeMap::new();
    let mut violations: Vec<(String, Value)> = vec![];
    macro_rules! stat {
        ($k:expr, $n:expr) => {
            *stats.entry($k.to_string()).or_insert(0) += $n
        };
    }
    let dir = tempfile::Builder::new().prefix("vh-c19-live-").tempdir().map_err(|e| e.to_string())?;
    let old = dir.path().join("live.db");
    let new = dir.path().join("new.db");
    let sizes = [50usize, 300, 1500, 5000];
    let (n_old, n_new) = (*crate::common::pick(&mut rng, &sizes), *crate::common::pick(&mut rng, &sizes));
    let old_wal = rng.random_range(0..3) != 0;
    let frames = old_wal && rng.random_range(0..2) == 0;
    let new_wal = rng.random_range(0..2) == 0;
    make_db(&old, old_wal, n_old, 1, frames)?;
    make_db(&new, new_wal, n_new, 2, false)?;
    let stopf = dir.path().join("stop");
    let exe = std::env::current_exe().map_err(|e| e.to_string())?;
    let mut readers = vec![];
    for i in 0..rng.random_range(2..=4) {
        let reopen = i % 2 == 1;
        let child = Command::new(&exe)
            .args(["c19-reader", &old.display().to_string(), &stopf.display().to_string(), if reopen { "1" } else { "0" }])
            .stdin(Stdio::null())
            .stdout(Stdio::piped())
            .stderr(Stdio::null())
            .spawn()
            .map_err(|e| format!("spawn reader: {e}"))?;
        readers.push((reopen, child));
    }
    std::thread::sleep(Duration::from_millis(rng.random_range(30..150)));
    let res = klukai_types::sqlite3_restore::restore(&new, &old, Duration::from_secs(20));
    stat!("live.restores", 1);
    if res.is_err() {
        stat!("live.restore_failed", 1);
    }
    std::thread::sleep(Duration::from_millis(rng.random_range(50..200)));
    std::fs::write(&stopf, b"x").map_err(|e| e.to_string())?;
    let mut saw_old = false;
    let mut saw_new = false;
    for (reopen, child) in readers {
        let out = child.wait_with_output().map_err(|e| e.to_string())?;
        let text = String::from_utf8_lossy(&out.stdout);
        let mut after_new = false;
        for line in text.lines() {
            if let Some(rest) = line.strip_prefix("R ") {
                let v: Vec<i64> = rest.split(' ').filter_map(|x| x.parse().ok()).collect();
                if v.len() != 6 {
                    continue;
                }
                stat!("live.reads_ok", 1);
                let is_old = v == vec![n_old as i64, 1, 1, n_old as i64, 1, 1];
                let is_new = v == vec![n_new as i64, 2, 2, n_new as i64, 2, 2];
                if is_old {
                    stat!("live.reads_old", 1);
                    saw_old = true;
                    if after_new {
                        violations.push(("live/old-content-read-after-new-content".into(), json!({"reader_reopens": reopen, "old_rows": n_old, "new_rows": n_new})));
                    }
                } else if is_new {
                    stat!("live.reads_new", 1);
                    saw_new = true;
                    after_new = true;
                } else {
                    violations.push((
                        "live/successful-read-shows-a-mixture-of-old-and-new".into(),
                        json!({"read(count,min,max gen of table 1; of table 2)": v, "old": [n_old, 1], "new": [n_new, 2], "old_wal": old_wal, "uncheckpointed_frames": frames, "new_wal": new_wal, "reader_reopens": reopen, "restore_result": format!("{:?}", res.as_ref().map(|r| (r.old_len, r.new_len)).map_err(|e| e.to_string()))}),
                    ));
                }
            } else if line.starts_with("E ") {
                stat!("live.reads_refused", 1);
            }
        }
    }
    // final content
    {
        let c = rusqlite::Connection::open(&old).map_err(|e| e.to_string())?;
        let ok: String = c.query_row("PRAGMA integrity_check", [], |r| r.get(0)).unwrap_or_else(|e| e.to_string());
        let v: Result<(i64, i64, i64), _> = c.query_row("SELECT COUNT(*), COALESCE(MIN(gen),0), COALESCE(MAX(gen),0) FROM marker", [], |r| Ok((r.get(0)?, r.get(1)?, r.get(2)?)));
        let want = if res.is_ok() { (n_new as i64, 2, 2) } else { (n_old as i64, 1, 1) };
        if ok != "ok" || v.as_ref().ok() != Some(&want) {
            violations.push((
                if res.is_ok() { "live/file-not-entirely-new-after-restore" } else { "live/file-not-untouched-after-failed-restore" }.into(),
                json!({"integrity_check": ok, "marker(count,min,max)": format!("{v:?}"), "expected": format!("{want:?}"), "old_wal": old_wal, "uncheckpointed_frames": frames, "new_wal": new_wal, "old_rows": n_old, "new_rows": n_new}),
            ));
        }
    }
    let mut seen = std::collections::BTreeSet::new();
    violations.retain(|(s, _)| seen.insert(s.clone()));
    Ok(ExecOut {
        violations,
        hash: format!("live|{n_old}|{n_new}|{old_wal}|{frames}|{new_wal}|{seed}"),
        nontrivial: saw_old && saw_new,
        stats,
        sample: Some(json!({"old_rows": n_old, "new_rows": n_new, "old_wal": old_wal, "uncheckpointed_frames": frames, "new_wal": new_wal})),
    })
}

pub async fn one_execution(seed: u64) -> Result<ExecOut, String> {
    if seed % 2 == 0 {
        tokio::task::spawn_blocking(move || live_restore_execution(seed)).await.map_err(|e| e.to_string())?
    } else {
        authorship_execution(seed).await
    }
}

fn run(ctx: &mut Ctx) {
    subs::run_loop(ctx, 4, 300, one_execution);
}

#[allow(dead_code)]
fn _unused(_: &mut Vec<u8>) {
    let _ = [0u8].shuffle(&mut rand::rngs::StdRng::seed_from_u64(0));
}
