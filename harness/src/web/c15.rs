//! C15 — schema changes are additive, atomic, idempotent and survive restart.

use std::{collections::BTreeMap, time::Duration};

use axum::Extension;
use klukai_agent::api::public::api_v1_db_schema;
use klukai_types::{
    api::Statement,
    schema::{Schema, init_schema},
};
use rand::Rng;
use serde_json::{Value, json};

use crate::{
    Check,
    common::{CheckSpec, Ctx, chance, hash_str, pick},
    sim::{Node, NodeOpts, new_node, new_node_in},
};

pub fn check() -> Check {
    Check {
        spec: CheckSpec {
            prop: "C15",
            level: "exploration",
            rule: "execution = sequence of schema submissions through the real api_v1_db_schema against a real node holding data; a model of the accepted table definitions generates each submission as full table definitions (1-3 tables + index statements) with one seeded edit: allowed (new table, added nullable column, added NOT NULL DEFAULT column, generated column, index added/changed/dropped, re-submission unchanged) or forbidden (dropped column, changed type/default/nullability, primary key reordered / extended / changed, NOT NULL without default, UNIQUE index, foreign key, syntax error at statement k of n, valid first table + rejected second table); rows are inserted between submissions; after EVERY submission: every earlier table/column/row/value still there with the same definition, a non-200 answer leaves sqlite_schema, __corro_schema, contents and the agent's in-memory schema identical, the in-memory schema equals the schema parsed from the database (what a restart would load), re-applying an accepted submission changes nothing; plus real restarts on the same files; non-trivial = execution containing a forbidden edit on a table holding data; distinct by hash of the submission log",
            assumptions: &["a table omitted from a submission is not a drop request (the API merges per table)"],
            min_nontrivial: 30,
            required_stats: &["submissions", "accepted", "rejected", "edit.reorder_pk", "edit.drop_column", "edit.change_type", "edit.add_column_default", "edit.syntax_error_late", "reapplied", "restarts"],
        },
        budget: (45, 600),
        workers: (10, 12),
        run,
    }
}

#[derive(Clone, Debug)]
struct Col {
    name: String,
    ty: &'static str,
    not_null: bool,
    default: Option<String>,
    generated: Option<String>,
    /// definition details that only live in the column's text (collation, CHECK)
    extra: Option<String>,
}

#[derive(Clone, Debug)]
struct Tbl {
    name: String,
    pk: Vec<String>,
    cols: Vec<Col>, // includes pk columns
    indexes: Vec<(String, Vec<String>)>,
}

impl Tbl {
    fn sql(&self) -> String {
        let mut parts: Vec<String> = self
            .cols
            .iter()
            .map(|c| {
                let mut s = format!("{} {}", c.name, c.ty);
                if let Some(g) = &c.generated {
                    s.push_str(&format!(" GENERATED ALWAYS AS ({g}) VIRTUAL"));
                    return s;
                }
                if c.not_null {
                    s.push_str(" NOT NULL");
                }
                if let Some(d) = &c.default {
                    s.push_str(&format!(" DEFAULT {d}"));
                }
                if let Some(x) = &c.extra {
                    s.push_str(&format!(" {x}"));
                }
                s
            })
            .collect();
        parts.push(format!("PRIMARY KEY ({})", self.pk.join(", ")));
        let mut out = format!("CREATE TABLE {} ({});", self.name, parts.join(", "));
        for (n, cols) in self.indexes.iter() {
            out.push_str(&format!(" CREATE INDEX {n} ON {} ({});", self.name, cols.join(", ")));
        }
        out
    }
}

fn new_table(rng: &mut impl Rng, i: usize) -> Tbl {
    let composite = chance(rng, 400);
    let mut cols = vec![Col {
        name: "id1".into(),
        ty: *pick(rng, &["INTEGER", "TEXT", "BLOB"]),
        not_null: true,
        default: None,
        generated: None,
        extra: None,
    }];
    let mut pk = vec!["id1".to_string()];
    if composite {
        cols.push(Col {
            name: "id2".into(),
            ty: "TEXT",
            not_null: true,
            default: None,
            generated: None,
            extra: None,
        });
        pk.push("id2".into());
    }
    cols.push(Col {
        name: "v0".into(),
        ty: "TEXT",
        not_null: true,
        default: Some("''".into()),
        generated: None,
        extra: None,
    });
    cols.push(Col {
        name: "n0".into(),
        ty: "INTEGER",
        not_null: false,
        default: None,
        generated: None,
        extra: None,
    });
    cols.push(Col {
        name: "d0".into(),
        ty: "VARCHAR(10)",
        not_null: false,
        default: None,
        generated: None,
        extra: Some(pick(rng, &["COLLATE NOCASE", "CHECK (length(d0) < 100)", "COLLATE NOCASE CHECK (d0 <> 'forbidden')"]).to_string()),
    });
    Tbl {
        name: format!("s{i}"),
        pk,
        cols,
        indexes: vec![],
    }
}

/// projection of a Schema that must stay stable
fn project(s: &Schema) -> BTreeMap<String, String> {
    s.tables
        .iter()
        .map(|(n, t)| {
            let cols: Vec<String> = t
                .columns
                .iter()
                .map(|(cn, c)| format!("{cn}:{:?}:{}:{:?}:{:?}:{}:[{:?}]", c.sql_type, c.nullable, c.default_value, c.generated.as_ref().map(|g| &g.raw), c.primary_key, c.raw))
                .collect();
            let mut idx: Vec<String> = t.indexes.iter().map(|(n, i)| format!("{n}({:?})u{}", i.columns.iter().map(|c| format!("{:?}", c.expr)).collect::<Vec<_>>(), i.unique)).collect();
            idx.sort();
            (n.clone(), format!("pk={:?} cols={cols:?} idx={idx:?}", t.pk.iter().collect::<Vec<_>>()))
        })
        .collect()
}

#[derive(PartialEq, Clone, Debug)]
struct DbState {
    sqlite_schema: Vec<(String, String, String)>,
    corro_schema: Vec<(String, String, String)>,
    table_info: BTreeMap<String, Vec<String>>,
    contents: BTreeMap<String, Vec<Vec<String>>>,
}

fn db_state(node: &Node, tables: &[String]) -> Result<DbState, String> {
    let c = node.ro().map_err(|e| e.to_string())?;
    let e = |e: rusqlite::Error| e.to_string();
    let sqlite_schema = {
        let mut st = c
            .prepare("SELECT type, name, COALESCE(sql,'') FROM sqlite_schema WHERE name NOT LIKE '%crsql%' AND name NOT LIKE '__corro%' AND name NOT LIKE 'sqlite_%' ORDER BY 1,2")
            .map_err(e)?;
        st.query_map([], |r| Ok((r.get(0)?, r.get(1)?, r.get(2)?))).and_then(|x| x.collect()).map_err(e)?
    };
    let corro_schema = {
        let mut st = c.prepare("SELECT tbl_name, type || ':' || name, sql FROM __corro_schema ORDER BY 1,2").map_err(e)?;
        st.query_map([], |r| Ok((r.get(0)?, r.get(1)?, r.get(2)?))).and_then(|x| x.collect()).map_err(e)?
    };
    let mut table_info = BTreeMap::new();
    let mut contents = BTreeMap::new();
    for t in tables {
        let exists: bool = c.query_row("SELECT EXISTS(SELECT 1 FROM sqlite_schema WHERE type='table' AND name=?)", [t], |r| r.get(0)).map_err(e)?;
        if !exists {
            continue;
        }
        let mut st = c.prepare(&format!("SELECT name, type, \"notnull\", COALESCE(dflt_value,'<none>'), pk, hidden FROM pragma_table_xinfo('{t}') ORDER BY cid")).map_err(e)?;
        let cols: Vec<String> = st
            .query_map([], |r| {
                Ok(format!(
                    "{}|{}|{}|{}|{}|{}",
                    r.get::<_, String>(0)?,
                    r.get::<_, String>(1)?,
                    r.get::<_, i64>(2)?,
                    r.get::<_, String>(3)?,
                    r.get::<_, i64>(4)?,
                    r.get::<_, i64>(5)?
                ))
            })
            .and_then(|x| x.collect())
            .map_err(e)?;
        let names: Vec<String> = cols.iter().filter(|c| c.ends_with("|0")).map(|c| c.split('|').next().unwrap().to_string()).collect();
        table_info.insert(t.clone(), cols);
        let mut st = c.prepare(&format!("SELECT {} FROM {t}", names.iter().map(|n| format!("quote({n})")).collect::<Vec<_>>().join(", "))).map_err(e)?;
        let n = names.len();
        let mut rows: Vec<Vec<String>> = st.query_map([], |r| (0..n).map(|i| r.get::<_, String>(i)).collect::<rusqlite::Result<Vec<_>>>()).and_then(|x| x.collect()).map_err(e)?;
        rows.sort();
        contents.insert(t.clone(), rows);
    }
    Ok(DbState {
        sqlite_schema,
        corro_schema,
        table_info,
        contents,
    })
}

/// everything in `before` must still be in `after` (definitions unchanged, rows/values kept)
fn additive_violation(before: &DbState, after: &DbState) -> Option<String> {
    for (t, cols) in before.table_info.iter() {
        let Some(acols) = after.table_info.get(t) else { return Some(format!("table {t} is gone")) };
        for (i, c) in cols.iter().enumerate() {
            match acols.get(i) {
                Some(a) if a == c => {}
                other => return Some(format!("table {t}: column #{i} was `{c}`, now `{other:?}`")),
            }
        }
        let n = cols.iter().filter(|c| c.ends_with("|0")).count();
        let brows = &before.contents[t];
        let arows: Vec<Vec<String>> = after.contents.get(t).map(|r| r.iter().map(|x| x[..n.min(x.len())].to_vec()).collect()).unwrap_or_default();
        for r in brows {
            if !arows.contains(r) {
                return Some(format!("table {t}: row {r:?} lost or changed"));
            }
        }
    }
    None
}

async fn submit(node: &Node, stmts: Vec<String>) -> u16 {
    let (status, _) = api_v1_db_schema(Extension(node.agent.clone()), axum::Json(stmts)).await;
    status.as_u16()
}

pub async fn one_execution(seed: u64, stats: &mut BTreeMap<String, u64>) -> Result<(Vec<(String, Value)>, String, bool), String> {
    use rand::SeedableRng;
    let mut rng = rand::rngs::StdRng::seed_from_u64(seed);
    let mut node = new_node(
        0,
        NodeOpts {
            schema: None,
            serve_sync: false,
            ..Default::default()
        },
    )
    .await
    .map_err(|e| e.to_string())?;
    let bump = |stats: &mut BTreeMap<String, u64>, k: &str| *stats.entry(k.to_string()).or_insert(0) += 1;
    let mut model: Vec<Tbl> = vec![];
    let mut log: Vec<String> = vec![];
    let mut violations: Vec<(String, Value)> = vec![];
    let mut nontrivial = false;
    let mut row_counter = 0i64;
    let steps = rng.random_range(6..=18);

    for step in 0..steps {
        let names: Vec<String> = model.iter().map(|t| t.name.clone()).chain((0..4).map(|i| format!("s{i}"))).collect::<std::collections::BTreeSet<_>>().into_iter().collect();
        let before = db_state(&node, &names)?;
        let mem_before = project(&node.agent.schema().read());

        // ---- build a submission
        let mut proposal = model.clone();
        let mut stmts: Vec<String> = vec![];
        let edit: &str;
        let expect_ok: bool;
        let has_data = |m: &Vec<Tbl>, idx: usize, b: &DbState| b.contents.get(&m[idx].name).map(|r| !r.is_empty()).unwrap_or(false);
        let choice = if model.is_empty() { 0 } else { rng.random_range(0..100) };
        let ti = if model.is_empty() { 0 } else { rng.random_range(0..model.len()) };
        if choice < 12 && model.len() < 4 {
            edit = "new_table";
            let t = new_table(&mut rng, model.len());
            proposal.push(t.clone());
            stmts.push(t.sql());
            expect_ok = true;
        } else if choice < 22 {
            edit = "add_column_nullable";
            let n = proposal[ti].cols.len();
            proposal[ti].cols.push(Col { name: format!("c{n}"), ty: *pick(&mut rng, &["TEXT", "INTEGER", "REAL", "BLOB"]), not_null: false, default: None, generated: None, extra: None });
            stmts.push(proposal[ti].sql());
            expect_ok = true;
        } else if choice < 32 {
            edit = "add_column_default";
            let n = proposal[ti].cols.len();
            proposal[ti].cols.push(Col { name: format!("c{n}"), ty: "INTEGER", not_null: true, default: Some(format!("{}", rng.random_range(0..9))), generated: None, extra: None });
            stmts.push(proposal[ti].sql());
            expect_ok = true;
        } else if choice < 38 {
            edit = "add_index";
            let n = proposal[ti].indexes.len();
            let col = proposal[ti].cols[rng.random_range(0..proposal[ti].cols.len())].name.clone();
            let ix_name = format!("{}_ix{n}_{step}", proposal[ti].name);
            proposal[ti].indexes.push((ix_name, vec![col]));
            stmts.push(proposal[ti].sql());
            expect_ok = true;
        } else if choice < 42 && !proposal[ti].indexes.is_empty() {
            edit = "drop_index";
            proposal[ti].indexes.pop();
            stmts.push(proposal[ti].sql());
            expect_ok = true;
        } else if choice < 48 {
            edit = "resubmit_unchanged";
            stmts.push(proposal[ti].sql());
            expect_ok = true;
        } else if choice < 56 {
            edit = "reorder_pk";
            if proposal[ti].pk.len() < 2 {
                continue;
            }
            proposal[ti].pk.reverse();
            stmts.push(proposal[ti].sql());
            expect_ok = false;
            nontrivial |= has_data(&model, ti, &before);
        } else if choice < 62 {
            edit = "extend_pk";
            let extra = proposal[ti].cols.iter().find(|c| !proposal[ti].pk.contains(&c.name) && c.generated.is_none()).map(|c| c.name.clone());
            let Some(extra) = extra else { continue };
            proposal[ti].pk.push(extra);
            stmts.push(proposal[ti].sql());
            expect_ok = false;
            nontrivial |= has_data(&model, ti, &before);
        } else if choice < 69 {
            edit = "drop_column";
            let pos = proposal[ti].cols.iter().rposition(|c| !proposal[ti].pk.contains(&c.name));
            let Some(pos) = pos else { continue };
            proposal[ti].cols.remove(pos);
            proposal[ti].indexes.clear();
            stmts.push(proposal[ti].sql());
            expect_ok = false;
            nontrivial |= has_data(&model, ti, &before);
        } else if choice < 76 {
            edit = "change_type";
            let pos = proposal[ti].cols.iter().position(|c| !proposal[ti].pk.contains(&c.name) && c.generated.is_none());
            let Some(pos) = pos else { continue };
            proposal[ti].cols[pos].ty = if proposal[ti].cols[pos].ty == "TEXT" { "INTEGER" } else { "TEXT" };
            stmts.push(proposal[ti].sql());
            expect_ok = false;
            nontrivial |= has_data(&model, ti, &before);
        } else if choice < 81 {
            edit = "change_default_or_nullability";
            let pos = proposal[ti].cols.iter().position(|c| !proposal[ti].pk.contains(&c.name) && c.generated.is_none());
            let Some(pos) = pos else { continue };
            if chance(&mut rng, 500) {
                proposal[ti].cols[pos].default = Some("'changed'".into());
            } else {
                proposal[ti].cols[pos].not_null = !proposal[ti].cols[pos].not_null;
                if proposal[ti].cols[pos].not_null && proposal[ti].cols[pos].default.is_none() {
                    proposal[ti].cols[pos].default = Some("0".into());
                }
            }
            stmts.push(proposal[ti].sql());
            expect_ok = false;
        } else if choice < 83 {
            edit = "change_definition_detail";
            // collation, declared size or CHECK of an existing column: nothing but the
            // column's text changes
            let Some(pos) = proposal[ti].cols.iter().position(|c| c.name == "d0") else { continue };
            match rng.random_range(0..4) {
                0 => proposal[ti].cols[pos].ty = "VARCHAR(20)",
                1 => proposal[ti].cols[pos].extra = Some("COLLATE BINARY".into()),
                2 => proposal[ti].cols[pos].extra = Some("CHECK (length(d0) < 5)".into()),
                _ => proposal[ti].cols[pos].extra = None,
            }
            stmts.push(proposal[ti].sql());
            expect_ok = false;
            nontrivial |= has_data(&model, ti, &before);
        } else if choice < 86 {
            edit = "not_null_without_default";
            let n = proposal[ti].cols.len();
            proposal[ti].cols.push(Col { name: format!("c{n}"), ty: "TEXT", not_null: true, default: None, generated: None, extra: None });
            stmts.push(proposal[ti].sql());
            expect_ok = false;
        } else if choice < 89 {
            edit = "unique_index";
            let col = proposal[ti].cols[0].name.clone();
            stmts.push(format!("{} CREATE UNIQUE INDEX {}_uq{step} ON {} ({col});", proposal[ti].sql(), proposal[ti].name, proposal[ti].name));
            expect_ok = false;
        } else if choice < 92 {
            edit = "foreign_key";
            let mut sql = proposal[ti].sql();
            sql = sql.replacen("n0 INTEGER", "n0 INTEGER REFERENCES s0 (id1)", 1);
            if !sql.contains("REFERENCES") {
                continue;
            }
            stmts.push(sql);
            expect_ok = false;
        } else if choice < 96 {
            edit = "syntax_error_late";
            // a valid, state-changing first statement followed by garbage
            let n = proposal[ti].cols.len();
            proposal[ti].cols.push(Col { name: format!("c{n}"), ty: "TEXT", not_null: false, default: None, generated: None, extra: None });
            stmts.push(proposal[ti].sql());
            stmts.push("CREATE TABLE oops (id INTEGER PRIMARY KEY NOT NULL, ;".into());
            expect_ok = false;
            nontrivial = true;
        } else {
            edit = "valid_new_table_then_rejected_table";
            if model.len() >= 4 {
                continue;
            }
            let t = new_table(&mut rng, model.len());
            proposal.push(t.clone());
            stmts.push(t.sql());
            let mut bad = proposal[ti].clone();
            let pos = bad.cols.iter().rposition(|c| !bad.pk.contains(&c.name));
            let Some(pos) = pos else { continue };
            bad.cols.remove(pos);
            bad.indexes.clear();
            stmts.push(bad.sql());
            expect_ok = false;
            nontrivial = true;
        }
        if edit == "add_column_default" && chance(&mut rng, 300) {
            // a generated column rides along sometimes
            let n = proposal[ti].cols.len();
            proposal[ti].cols.push(Col { name: format!("g{n}"), ty: "TEXT", not_null: false, default: None, generated: Some("v0 || 'x'".into()), extra: None });
            stmts = vec![proposal[ti].sql()];
        }
        bump(stats, "submissions");
        bump(stats, &format!("edit.{edit}"));
        let status = submit(&node, stmts.clone()).await;
        log.push(format!("#{step} {edit} -> {status}: {}", crate::common::truncate(&stmts.join(" "), 260)));

        let after = db_state(&node, &names)?;
        let mem_after = project(&node.agent.schema().read());
        let ctx = |extra: Value, log: &Vec<String>| json!({"edit": edit, "status": status, "detail": extra, "log": log});

        if let Some(why) = additive_violation(&before, &after) {
            violations.push(("additive/existing-table-column-or-row-lost-or-changed".into(), ctx(json!(why), &log)));
        }
        // pk / column definitions of the in-memory schema never change for existing tables
        for (t, b) in mem_before.iter() {
            match mem_after.get(t) {
                None => violations.push(("additive/table-vanished-from-in-memory-schema".into(), ctx(json!(t), &log))),
                Some(a) => {
                    let pk_b = b.split(" cols=").next().unwrap_or("");
                    let pk_a = a.split(" cols=").next().unwrap_or("");
                    if pk_a != pk_b {
                        violations.push((
                            "additive/primary-key-of-in-memory-schema-changed".into(),
                            ctx(json!({"table": t, "before": pk_b, "after": pk_a}), &log),
                        ));
                    }
                }
            }
        }
        if status == 200 {
            bump(stats, "accepted");
            if !expect_ok {
                // accepted although the edit is forbidden: judged through its effects above/below
                bump(stats, "accepted_although_forbidden_edit");
            } else {
                model = proposal;
            }
        } else {
            bump(stats, "rejected");
            if before != after {
                violations.push(("atomic/rejected-submission-changed-the-database".into(), ctx(json!({"sqlite_schema_changed": before.sqlite_schema != after.sqlite_schema, "corro_schema_changed": before.corro_schema != after.corro_schema, "contents_changed": before.contents != after.contents}), &log)));
            }
            if mem_before != mem_after {
                violations.push(("atomic/rejected-submission-changed-the-in-memory-schema".into(), ctx(json!({"before": mem_before, "after": mem_after}), &log)));
            }
        }
        // the schema the node works with == what the database says (what a restart loads)
        {
            let c = node.ro().map_err(|e| e.to_string())?;
            match init_schema(&c) {
                Ok(s) => {
                    let disk = project(&s);
                    if disk != mem_after {
                        violations.push((
                            "restart/in-memory-schema-differs-from-schema-stored-in-database".into(),
                            ctx(json!({"in_memory": mem_after, "from_database": disk}), &log),
                        ));
                    }
                }
                Err(e) => violations.push(("restart/stored-schema-does-not-parse".into(), ctx(json!(e.to_string()), &log))),
            }
        }
        // idempotence of accepted submissions
        if status == 200 && chance(&mut rng, 500) {
            bump(stats, "reapplied");
            let status2 = submit(&node, stmts.clone()).await;
            let again = db_state(&node, &names)?;
            let mem_again = project(&node.agent.schema().read());
            if status2 != 200 || again != after || mem_again != mem_after {
                violations.push(("idempotent/re-applying-an-accepted-submission-changed-something".into(), ctx(json!({"second_status": status2, "db_changed": again != after, "memory_changed": mem_again != mem_after}), &log)));
            }
        }
        // insert some rows into model tables (only columns known to the model)
        if !model.is_empty() && chance(&mut rng, 700) {
            let t = model[rng.random_range(0..model.len())].clone();
            row_counter += 1;
            let mut cols = vec![];
            let mut vals: Vec<String> = vec![];
            for c in t.cols.iter().filter(|c| c.generated.is_none()) {
                cols.push(c.name.clone());
                vals.push(match c.ty {
                    "INTEGER" | "REAL" => format!("{row_counter}"),
                    "BLOB" => format!("x'{:04x}'", row_counter),
                    _ => format!("'r{row_counter}'"),
                });
            }
            let (st, _) = node.tx(vec![Statement::Simple(format!("INSERT INTO {} ({}) VALUES ({})", t.name, cols.join(","), vals.join(",")))]).await;
            if st == 200 {
                bump(stats, "rows_inserted");
            }
            // drain the broadcast channel so it never fills up
            while node.rx_bcast.try_recv().is_ok() {}
        }
        // ---- a real restart on the same files, sometimes
        if chance(&mut rng, 120) {
            bump(stats, "restarts");
            let mem = project(&node.agent.schema().read());
            let names2 = names.clone();
            let st_before = db_state(&node, &names2)?;
            let dir = node.shutdown().await;
            tokio::time::sleep(Duration::from_millis(30)).await;
            node = new_node_in(
                0,
                dir,
                NodeOpts {
                    schema: None,
                    serve_sync: false,
                    ..Default::default()
                },
            )
            .await
            .map_err(|e| format!("restart: {e}"))?;
            let mem2 = project(&node.agent.schema().read());
            let st_after = db_state(&node, &names2)?;
            if mem != mem2 {
                violations.push(("restart/schema-after-restart-differs".into(), json!({"before": mem, "after": mem2, "log": log})));
            }
            if st_before != st_after {
                violations.push(("restart/database-changed-by-restart".into(), json!({"log": log})));
            }
        }
        if violations.len() > 4 {
            break;
        }
    }
    let h = format!("{log:?}");
    drop(node.shutdown().await);
    Ok((violations, h, nontrivial))
}

fn run(ctx: &mut Ctx) {
    std::panic::set_hook(Box::new(|_| {}));
    let rt = tokio::runtime::Builder::new_multi_thread().worker_threads(3).enable_all().build().unwrap();
    let target = ctx.tier.pick(400u64, 100_000u64);
    let only: Option<u64> = ctx.extra.iter().position(|a| a == "--exec-seed").and_then(|p| ctx.extra.get(p + 1)).and_then(|s| s.parse().ok());
    let mut i = 0u64;
    while i < target && ctx.time_left() {
        i += 1;
        let mut seed = ctx.seed.wrapping_mul(1_000_003).wrapping_add((ctx.worker as u64) << 40).wrapping_add(i);
        if let Some(o) = only {
            if i > 1 || ctx.worker != 0 {
                break;
            }
            seed = o;
        }
        let mut stats = BTreeMap::new();
        let res = rt.block_on(async { tokio::time::timeout(Duration::from_secs(300), one_execution(seed, &mut stats)).await });
        for (k, v) in stats {
            ctx.stat(&k, v);
        }
        match res {
            Err(_) => ctx.inconclusive(format!("execution seed {seed} exceeded the 300s watchdog")),
            Ok(Err(e)) => ctx.inconclusive(format!("execution seed {seed}: {e}")),
            Ok(Ok((violations, h, nontrivial))) => {
                ctx.exec(hash_str(&h), nontrivial);
                for (sig, mut d) in violations {
                    d["exec_seed"] = json!(seed);
                    ctx.violation(sig, d);
                }
                if nontrivial {
                    ctx.sample(|| json!({"exec_seed": seed, "submissions": h.chars().take(1200).collect::<String>()}));
                }
            }
        }
    }
}
