//! Checks driving a full agent through its HTTP API (engine E2).

pub mod c15;
pub mod c17;
