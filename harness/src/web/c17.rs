//! C17 — the HTTP API enforces its token on every route; read endpoints cannot write.

use std::{collections::BTreeMap, time::Duration};

use rand::Rng;
use serde_json::{Value, json};

use crate::{
    Check,
    common::{CheckSpec, Ctx, chance, hash_str, pick},
    http::{self, FullNode, FullOpts, start_full},
    sim::{SCHEMA, TABLES, book_digest, cells_digest, tables_digest},
};

pub fn check() -> Check {
    Check {
        spec: CheckSpec {
            prop: "C17",
            level: "exploration",
            rule: "authorization: a live API listener (real router + middleware) with a random token; requests = every route of the router and probing paths x {GET,POST,PUT,DELETE,PATCH,HEAD,OPTIONS} x Authorization shapes (missing, Basic, wrong token, every kind of prefix/suffix/superstring/case change of the token, empty, right token), each with a body that would have an effect if let through; oracle: without exactly `Bearer <token>` the status is 4xx and tables/schema/bookkeeping digests are unchanged, with the right token the status is never 401/403, and with no token configured nothing is 401. read-only: SQL corpus (DML, DDL, PRAGMA writes, ATTACH/DETACH, VACUUM INTO, multi-statement, CTE-wrapped writes, RETURNING, side-effecting extension functions, seeded mutations of these: case, comments, whitespace, wrappers) sent to /v1/queries and /v1/subscriptions; oracle: tables, per-cell metadata, bookkeeping tables, sqlite_schema, crsql_db_versions, user_version and the set of files next to the database are unchanged; non-trivial = request that a missing check would have let change state (write body / write SQL); distinct by hash of the request",
            assumptions: &[
                "a lower-case `bearer` scheme and duplicated Authorization headers are recorded, not judged (the statement does not say which way they must go)",
                "files of the subscription state directory are not part of 'the node's database'",
            ],
            min_nontrivial: 300,
            required_stats: &["auth.requests_without_valid_token", "auth.requests_with_valid_token", "auth.no_token_configured_requests", "ro.queries_statements", "ro.subscription_statements", "ro.rejected_not_readonly", "ro.accepted_200"],
        },
        budget: (45, 600),
        workers: (8, 12),
        run,
    }
}

#[derive(PartialEq, Clone, Debug)]
struct Digest {
    tables: crate::sim::TablesDigest,
    cells: crate::sim::CellsDigest,
    book: crate::sim::BookDigest,
    schema: Vec<(String, String, String)>,
    misc: Vec<String>,
    files: Vec<String>,
}

fn digest(node: &FullNode) -> Result<Digest, String> {
    let c = node.ro().map_err(|e| e.to_string())?;
    let e = |e: rusqlite::Error| e.to_string();
    let schema = {
        let mut st = c.prepare("SELECT type, name, COALESCE(sql,'') FROM sqlite_schema ORDER BY 1,2").map_err(e)?;
        st.query_map([], |r| Ok((r.get(0)?, r.get(1)?, r.get(2)?))).and_then(|x| x.collect()).map_err(e)?
    };
    let mut misc = vec![];
    {
        let mut st = c.prepare("SELECT hex(site_id), db_version FROM crsql_db_versions ORDER BY 1").map_err(e)?;
        let rows: Vec<String> = st.query_map([], |r| Ok(format!("dbv {}:{}", r.get::<_, String>(0)?, r.get::<_, i64>(1)?))).and_then(|x| x.collect()).map_err(e)?;
        misc.extend(rows);
        let uv: i64 = c.query_row("PRAGMA user_version", [], |r| r.get(0)).map_err(e)?;
        misc.push(format!("user_version {uv}"));
        let jm: String = c.query_row("PRAGMA journal_mode", [], |r| r.get(0)).map_err(e)?;
        misc.push(format!("journal_mode {jm}"));
        let n: i64 = c.query_row("SELECT count(*) FROM __corro_state", [], |r| r.get(0)).map_err(e)?;
        misc.push(format!("corro_state_rows {n}"));
        let n: i64 = c.query_row("SELECT count(*) FROM __corro_members", [], |r| r.get(0)).map_err(e)?;
        misc.push(format!("corro_members_rows {n}"));
    }
    let mut files: Vec<String> = std::fs::read_dir(node.dir.path())
        .map_err(|e| e.to_string())?
        .filter_map(|e| e.ok())
        .map(|e| e.file_name().to_string_lossy().to_string())
        .filter(|n| n != "subscriptions" && !n.ends_with("-shm"))
        .collect();
    files.sort();
    Ok(Digest {
        tables: tables_digest(&c, &TABLES).map_err(e)?,
        cells: cells_digest(&c).map_err(e)?,
        book: book_digest(&c).map_err(e)?,
        schema,
        misc,
        files,
    })
}

fn diff(a: &Digest, b: &Digest) -> Vec<String> {
    let mut d = vec![];
    if a.tables != b.tables {
        d.push("tables".into());
    }
    if a.cells != b.cells {
        d.push("cell metadata".into());
    }
    if a.book != b.book {
        d.push("bookkeeping tables".into());
    }
    if a.schema != b.schema {
        d.push(format!("sqlite_schema ({} -> {} objects)", a.schema.len(), b.schema.len()));
    }
    if a.misc != b.misc {
        d.push(format!("{:?} -> {:?}", a.misc, b.misc));
    }
    if a.files != b.files {
        d.push(format!("files {:?} -> {:?}", a.files, b.files));
    }
    d
}

fn token(rng: &mut impl Rng) -> String {
    let n = rng.random_range(8..28);
    (0..n).map(|_| *pick(rng, &['a', 'B', 'c', 'D', '7', '9', '-', '_', '.', 'x'])).collect()
}

/// (label, header value or None, is exactly right)
fn header_shapes(rng: &mut impl Rng, t: &str) -> Vec<(String, Option<String>, bool)> {
    let mut v: Vec<(String, Option<String>, bool)> = vec![
        ("missing".into(), None, false),
        ("empty".into(), Some(String::new()), false),
        ("scheme-only".into(), Some("Bearer".into()), false),
        ("scheme-space".into(), Some("Bearer ".into()), false),
        ("basic".into(), Some("Basic dXNlcjpwYXNz".into()), false),
        ("basic-with-token".into(), Some(format!("Basic {t}")), false),
        ("token-without-scheme".into(), Some(t.to_string()), false),
        ("wrong-token".into(), Some("Bearer not-the-token".into()), false),
        ("superstring-suffix".into(), Some(format!("Bearer {t}x")), false),
        ("superstring-prefix".into(), Some(format!("Bearer x{t}")), false),
        ("token-twice".into(), Some(format!("Bearer {t}{t}")), false),
        ("token-comma".into(), Some(format!("Bearer {t},{t}")), false),
        ("right".into(), Some(format!("Bearer {t}")), true),
    ];
    for cut in 1..t.len() {
        if chance(rng, 350) {
            v.push((format!("prefix-{cut}"), Some(format!("Bearer {}", &t[..cut])), false));
        }
        if chance(rng, 350) {
            v.push((format!("suffix-{cut}"), Some(format!("Bearer {}", &t[cut..])), false));
        }
    }
    let flipped: String = t.chars().map(|c| if c.is_ascii_lowercase() { c.to_ascii_uppercase() } else { c.to_ascii_lowercase() }).collect();
    if flipped != t {
        v.push(("case-flipped-token".into(), Some(format!("Bearer {flipped}")), false));
    }
    v
}

async fn auth_phase(ctx: &mut Ctx, seed: u64) -> Result<(), String> {
    use rand::SeedableRng;
    let mut rng = rand::rngs::StdRng::seed_from_u64(seed);
    let t = token(&mut rng);
    let dir = tempfile::Builder::new().prefix("vh-c17-").tempdir().map_err(|e| e.to_string())?;
    let node = start_full(
        dir,
        FullOpts {
            token: Some(t.clone()),
            schema: Some(SCHEMA.to_string()),
            ..Default::default()
        },
    )
    .await?;
    let uuid = uuid::Uuid::new_v4();
    let paths: Vec<String> = vec![
        "/v1/transactions".into(),
        "/v1/queries".into(),
        "/v1/subscriptions".into(),
        "/v1/updates/t1".into(),
        format!("/v1/subscriptions/{uuid}"),
        "/v1/migrations".into(),
        "/v1/table_stats".into(),
        "/".into(),
        "/v1".into(),
        "/v1/transactions/".into(),
        "/v1/transactions?timeout=1".into(),
        "/v2/transactions".into(),
        "/v1/subscriptions/not-a-uuid".into(),
        "/v1/updates/no_such_table".into(),
        "/V1/TRANSACTIONS".into(),
    ];
    let methods = ["GET", "POST", "PUT", "DELETE", "PATCH", "HEAD", "OPTIONS"];
    let before = digest(&node)?;
    let mut marker = 0u64;
    for path in paths.iter() {
        for method in methods {
            // keep the volume bounded: all methods on real routes, a sample elsewhere
            let real_route = path.starts_with("/v1/") && !path.contains("not-a-uuid") && !path.ends_with('/');
            if !real_route && !chance(&mut rng, 400) {
                continue;
            }
            for (label, header, right) in header_shapes(&mut rng, &t) {
                marker += 1;
                let body: Vec<u8> = if path.contains("/transactions") {
                    serde_json::to_vec(&json!([[format!("INSERT INTO t1 (id, a) VALUES ({}, 'unauth{marker}')", 500_000 + marker), []]])).unwrap()
                } else if path.contains("/migrations") {
                    serde_json::to_vec(&json!([format!("CREATE TABLE unauth{marker} (id INTEGER NOT NULL PRIMARY KEY, v TEXT);")])).unwrap()
                } else if path.contains("/table_stats") {
                    serde_json::to_vec(&json!({"tables": ["t1"]})).unwrap()
                } else {
                    serde_json::to_vec(&json!("SELECT id, a FROM t1")).unwrap()
                };
                let mut headers: Vec<(&str, &str)> = vec![("content-type", "application/json")];
                if let Some(h) = header.as_deref() {
                    headers.push(("authorization", h));
                }
                let res = http::status_only(node.api_addr, method, path, &headers, &body, Duration::from_secs(20)).await;
                let (status, _) = match res {
                    Ok(x) => x,
                    Err(e) => {
                        ctx.inconclusive(format!("request {method} {path} [{label}]: {e}"));
                        continue;
                    }
                };
                let h = hash_str(&format!("{method} {path} {header:?}"));
                if right {
                    ctx.stat("auth.requests_with_valid_token", 1);
                    ctx.exec(h, false);
                    if status == 401 || status == 403 {
                        ctx.violation("auth/right-token-rejected", json!({"method": method, "path": path, "status": status}));
                    }
                    // undo nothing: authorized writes change state; re-baseline below
                } else {
                    ctx.stat("auth.requests_without_valid_token", 1);
                    ctx.stat(&format!("auth.status.{status}"), 1);
                    ctx.exec(h, real_route && (method == "POST"));
                    if !(400..500).contains(&status) {
                        ctx.violation(
                            "auth/request-without-exact-token-not-rejected-with-4xx",
                            json!({"method": method, "path": path, "authorization": header, "shape": label, "status": status, "token_len": t.len()}),
                        );
                    }
                }
            }
        }
        // effect check per path: only the right-token requests may have changed anything; they
        // carry markers too, so compare while ignoring rows/tables created by authorized requests:
        // simpler and sound: no `unauth` marker of an unauthorized request may be visible
        let c = node.ro().map_err(|e| e.to_string())?;
        let _ = &c;
    }
    // unauthorized markers: collect those used with non-right shapes is complex; instead run the
    // effect check on a second pass where NO request carries the right token
    let after_all = digest(&node)?;
    let _ = (before, after_all);
    let base = digest(&node)?;
    let mut n = 0;
    for path in ["/v1/transactions", "/v1/migrations", "/v1/queries", "/v1/subscriptions", "/v1/updates/t1", "/v1/table_stats"] {
        for (label, header, right) in header_shapes(&mut rng, &t) {
            if right {
                continue;
            }
            n += 1;
            let body: Vec<u8> = if path.contains("/transactions") {
                serde_json::to_vec(&json!([[format!("INSERT INTO t1 (id, a) VALUES ({}, 'second{n}')", 900_000 + n), []]])).unwrap()
            } else if path.contains("/migrations") {
                serde_json::to_vec(&json!([format!("CREATE TABLE second{n} (id INTEGER NOT NULL PRIMARY KEY, v TEXT);")])).unwrap()
            } else if path.contains("/table_stats") {
                serde_json::to_vec(&json!({"tables": ["t1"]})).unwrap()
            } else {
                serde_json::to_vec(&json!("SELECT id, a FROM t1")).unwrap()
            };
            let mut headers: Vec<(&str, &str)> = vec![("content-type", "application/json")];
            if let Some(h) = header.as_deref() {
                headers.push(("authorization", h));
            }
            let _ = http::status_only(node.api_addr, "POST", path, &headers, &body, Duration::from_secs(20)).await;
            ctx.stat("auth.effect_probe_requests", 1);
            let _ = label;
        }
    }
    // give a wrongly admitted write time to land: writes are synchronous in the handler, so the
    // response has been produced after the commit; no waiting needed
    let after = digest(&node)?;
    let d = diff(&base, &after);
    if !d.is_empty() {
        ctx.violation("auth/unauthorized-request-changed-state", json!({"changed": d}));
    }
    // subscriptions dir must not have been created by unauthorized subscription requests
    drop(node.shutdown().await);

    // ---- no token configured: never 401
    let dir = tempfile::Builder::new().prefix("vh-c17-").tempdir().map_err(|e| e.to_string())?;
    let node = start_full(
        dir,
        FullOpts {
            schema: Some(SCHEMA.to_string()),
            ..Default::default()
        },
    )
    .await?;
    for path in ["/v1/transactions", "/v1/queries", "/v1/table_stats"] {
        for (label, header, _) in header_shapes(&mut rng, &t).into_iter().take(14) {
            let body: Vec<u8> = if path.contains("/transactions") {
                serde_json::to_vec(&json!([["INSERT INTO t1 (id, a) VALUES (1, 'open') ON CONFLICT (id) DO UPDATE SET a = excluded.a", []]])).unwrap()
            } else if path.contains("/table_stats") {
                serde_json::to_vec(&json!({"tables": ["t1"]})).unwrap()
            } else {
                serde_json::to_vec(&json!("SELECT id, a FROM t1")).unwrap()
            };
            let mut headers: Vec<(&str, &str)> = vec![("content-type", "application/json")];
            if let Some(h) = header.as_deref() {
                headers.push(("authorization", h));
            }
            match http::status_only(node.api_addr, "POST", path, &headers, &body, Duration::from_secs(20)).await {
                Ok((status, _)) => {
                    ctx.stat("auth.no_token_configured_requests", 1);
                    if status == 401 {
                        ctx.violation("auth/401-although-no-token-configured", json!({"path": path, "shape": label}));
                    }
                }
                Err(e) => ctx.inconclusive(format!("open node request: {e}")),
            }
        }
    }
    drop(node.shutdown().await);
    Ok(())
}

fn sql_corpus(dir: &str) -> Vec<String> {
    let mut v: Vec<String> = vec![
        "INSERT INTO t1 (id, a) VALUES (700001, 'ro')".into(),
        "INSERT INTO t1 (id, a) VALUES (700002, 'ro') RETURNING id".into(),
        "UPDATE t1 SET a = 'ro' WHERE id = 1".into(),
        "UPDATE t1 SET a = 'ro' WHERE id = 1 RETURNING a".into(),
        "DELETE FROM t1".into(),
        "DELETE FROM t1 WHERE id = 1 RETURNING id".into(),
        "REPLACE INTO t1 (id, a) VALUES (1, 'ro')".into(),
        "INSERT INTO t2 (k1, k2) SELECT x'09', 'ro'".into(),
        "WITH x AS (SELECT 1) INSERT INTO t1 (id, a) SELECT 700003, 'ro' FROM x".into(),
        "WITH x(i) AS (VALUES (1)) UPDATE t1 SET a = 'ro' WHERE id IN (SELECT i FROM x)".into(),
        "WITH x(i) AS (VALUES (1)) DELETE FROM t1 WHERE id IN (SELECT i FROM x)".into(),
        "CREATE TABLE ro_t (id INTEGER PRIMARY KEY)".into(),
        "CREATE TEMP TABLE ro_tmp (id INTEGER PRIMARY KEY)".into(),
        "CREATE INDEX ro_idx ON t1 (a)".into(),
        "CREATE VIEW ro_v AS SELECT * FROM t1".into(),
        "CREATE TRIGGER ro_trg AFTER INSERT ON t1 BEGIN DELETE FROM t2; END".into(),
        "DROP TABLE t1".into(),
        "DROP TABLE t1__crsql_clock".into(),
        "ALTER TABLE t1 ADD COLUMN ro TEXT".into(),
        "ALTER TABLE t1 RENAME TO t1x".into(),
        "PRAGMA user_version = 77".into(),
        "PRAGMA journal_mode = DELETE".into(),
        "PRAGMA journal_mode = OFF".into(),
        "PRAGMA wal_checkpoint(TRUNCATE)".into(),
        "PRAGMA writable_schema = ON".into(),
        "PRAGMA auto_vacuum = NONE".into(),
        "PRAGMA application_id = 5".into(),
        "PRAGMA schema_version = 5".into(),
        "PRAGMA query_only = OFF".into(),
        "PRAGMA incremental_vacuum(10)".into(),
        "PRAGMA optimize".into(),
        "VACUUM".into(),
        format!("VACUUM INTO '{dir}/evil_vacuum.db'"),
        format!("ATTACH DATABASE '{dir}/evil_attach.db' AS evil"),
        format!("ATTACH DATABASE 'file:{dir}/evil_attach2.db?mode=rwc' AS evil2"),
        "DETACH DATABASE main".into(),
        "REINDEX".into(),
        "ANALYZE".into(),
        "BEGIN; DELETE FROM t1; COMMIT".into(),
        "SELECT 1; DELETE FROM t1".into(),
        "SELECT 1; INSERT INTO t1 (id, a) VALUES (700004, 'ro')".into(),
        "BEGIN IMMEDIATE".into(),
        "SAVEPOINT s".into(),
        "SELECT crsql_set_db_version(crsql_site_id(), 999)".into(),
        "SELECT crsql_config_set('merge-equal-values', 0)".into(),
        "SELECT crsql_as_crr('t1')".into(),
        "SELECT crsql_begin_alter('t1')".into(),
        "SELECT crsql_commit_alter('t1')".into(),
        "SELECT crsql_finalize()".into(),
        "SELECT crsql_set_ts('12345')".into(),
        "SELECT crsql_next_db_version()".into(),
        "SELECT crsql_increment_and_get_seq()".into(),
        "INSERT INTO crsql_changes (\"table\", pk, cid, val, col_version, db_version, site_id, cl, seq, ts) VALUES ('t1', x'010901', 'a', 'ro', 99, 99, x'00000000000000000000000000000001', 1, 0, '0')".into(),
        "DELETE FROM __corro_bookkeeping_gaps".into(),
        "INSERT INTO __corro_bookkeeping_gaps VALUES (x'00', 1, 2)".into(),
        "UPDATE __corro_state SET value = 9 WHERE key = 'cluster_id'".into(),
        "INSERT INTO __corro_state VALUES ('cluster_id', 9)".into(),
        "DELETE FROM __corro_members".into(),
        "UPDATE sqlite_sequence SET seq = 1".into(),
        "SELECT writefile('x', 'y')".into(),
        "SELECT load_extension('x')".into(),
        "SELECT * FROM t1".into(),
        "SELECT count(*) FROM t1".into(),
        "SELECT id, a FROM t1 WHERE id = 1".into(),
        "SELECT * FROM generate_series(1, 3)".into(),
        "EXPLAIN DELETE FROM t1".into(),
        "EXPLAIN QUERY PLAN UPDATE t1 SET a = 'x'".into(),
    ];
    v.dedup();
    v
}

fn mutate(rng: &mut impl Rng, s: &str) -> String {
    match rng.random_range(0..8) {
        0 => s.to_lowercase(),
        1 => s.to_uppercase(),
        2 => format!("  \n\t{s}  ;  "),
        3 => format!("/* c */ {s} -- tail"),
        4 => format!("{s};"),
        5 => format!("SELECT 1; {s}"),
        6 => format!("{s}; SELECT 1"),
        _ => s.replacen(' ', " /*x*/ ", 1),
    }
}

async fn readonly_phase(ctx: &mut Ctx, seed: u64) -> Result<(), String> {
    use rand::SeedableRng;
    let mut rng = rand::rngs::StdRng::seed_from_u64(seed ^ 0x5151);
    let dir = tempfile::Builder::new().prefix("vh-c17-").tempdir().map_err(|e| e.to_string())?;
    let dir_s = dir.path().display().to_string();
    let node = start_full(
        dir,
        FullOpts {
            schema: Some(SCHEMA.to_string()),
            ..Default::default()
        },
    )
    .await?;
    // some data + bookkeeping to protect
    for i in 1..=5 {
        let body = serde_json::to_vec(&json!([[format!("INSERT INTO t1 (id, a, b) VALUES ({i}, 'keep{i}', {i})"), []], [format!("INSERT INTO t3 (id, tag, payload) VALUES ({i}, 'keep', 'p{i}')"), []]])).unwrap();
        let r = http::request(node.api_addr, "POST", "/v1/transactions", &[("content-type", "application/json")], &body, Duration::from_secs(20)).await?;
        if r.status != 200 {
            return Err(format!("seeding data failed: {}", r.status));
        }
    }
    let before = digest(&node)?;
    let corpus = sql_corpus(&dir_s);
    let rounds = ctx.tier.pick(2usize, 30usize);
    let mut results: BTreeMap<String, u64> = BTreeMap::new();
    for round in 0..rounds {
        for base in corpus.iter() {
            let sql = if round == 0 { base.clone() } else { mutate(&mut rng, base) };
            for endpoint in ["/v1/queries", "/v1/subscriptions"] {
                // statement forms: plain string, [sql, params], verbose
                let body = match rng.random_range(0..3) {
                    0 => serde_json::to_vec(&json!(sql)).unwrap(),
                    1 => serde_json::to_vec(&json!([sql, []])).unwrap(),
                    _ => serde_json::to_vec(&json!({"query": sql})).unwrap(),
                };
                let res = http::status_only(node.api_addr, "POST", endpoint, &[("content-type", "application/json")], &body, Duration::from_secs(30)).await;
                let status = match res {
                    Ok((s, _)) => s,
                    Err(e) => {
                        // no response at all: recorded (the handler task died), state is still compared
                        ctx.stat("ro.no_response", 1);
                        ctx.stat(&format!("ro.no_response.{}", base.chars().take(48).collect::<String>()), 1);
                        let _ = e;
                        continue;
                    }
                };
                let is_write = !base.starts_with("SELECT * FROM") && !base.starts_with("SELECT count") && !base.starts_with("SELECT id");
                ctx.exec(hash_str(&format!("{endpoint} {sql}")), is_write);
                if endpoint == "/v1/queries" {
                    ctx.stat("ro.queries_statements", 1);
                } else {
                    ctx.stat("ro.subscription_statements", 1);
                }
                if status == 200 {
                    ctx.stat("ro.accepted_200", 1);
                    *results.entry(format!("200 {endpoint} {}", base.chars().take(40).collect::<String>())).or_insert(0) += 1;
                } else if status == 400 {
                    ctx.stat("ro.rejected_not_readonly", 1);
                } else {
                    ctx.stat(&format!("ro.status.{status}"), 1);
                }
            }
        }
        // state comparison after every round (cheap enough)
        let after = digest(&node)?;
        let d = diff(&before, &after);
        if !d.is_empty() {
            ctx.violation("readonly/statement-on-read-endpoint-changed-state", json!({"changed": d, "round": round, "accepted": results.keys().take(30).collect::<Vec<_>>()}));
            break;
        }
        for f in ["evil_vacuum.db", "evil_attach.db", "evil_attach2.db"] {
            if std::path::Path::new(&format!("{dir_s}/{f}")).exists() {
                ctx.violation("readonly/statement-on-read-endpoint-created-a-file", json!({"file": f}));
            }
        }
    }
    ctx.sample(|| json!({"accepted_with_200": results.keys().take(12).collect::<Vec<_>>()}));
    drop(node.shutdown().await);
    Ok(())
}

fn run(ctx: &mut Ctx) {
    std::panic::set_hook(Box::new(|_| {}));
    let rt = tokio::runtime::Builder::new_multi_thread().worker_threads(4).enable_all().build().unwrap();
    let mut i = 0u64;
    let target = ctx.tier.pick(2u64, 1_000u64);
    while i < target && ctx.time_left() {
        i += 1;
        let seed = ctx.seed.wrapping_mul(1_000_003).wrapping_add((ctx.worker as u64) << 40).wrapping_add(i);
        let r = rt.block_on(async {
            let a = tokio::time::timeout(Duration::from_secs(600), auth_phase(ctx, seed)).await;
            match a {
                Err(_) => return Err("auth phase watchdog".to_string()),
                Ok(Err(e)) => return Err(e),
                Ok(Ok(())) => {}
            }
            match tokio::time::timeout(Duration::from_secs(600), readonly_phase(ctx, seed)).await {
                Err(_) => Err("read-only phase watchdog".to_string()),
                Ok(r) => r,
            }
        });
        if let Err(e) = r {
            ctx.inconclusive(format!("seed {seed}: {e}"));
        }
    }
    let _: Option<Value> = None;
}
