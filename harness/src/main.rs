//! vh — runtime-monitoring harness for beanpuppy/corrosion (klukai).
//!
//! `vh <PROPERTY> --tier quick|thorough --seed N --out <evidence.json>` runs the
//! parent: it forks worker processes (`--worker i --of W`), merges what their
//! monitors observed, applies known findings, writes the evidence file and
//! prints the verdict lines.

#![feature(step_trait)]
#![allow(clippy::too_many_arguments, clippy::type_complexity)]

mod alloc_track;
mod common;
mod http;
mod pure;
mod sim;
mod web;

use std::time::Duration;

use common::{CheckSpec, Ctx, ParentArgs, Tier};

struct Check {
    spec: CheckSpec,
    /// (quick, thorough) default budgets in seconds per worker
    budget: (u64, u64),
    /// (quick, thorough) worker counts
    workers: (usize, usize),
    run: fn(&mut Ctx),
}

fn checks() -> Vec<Check> {
    vec![
        pure::c04::check(),
        pure::c08::check(),
        pure::c09::check(),
        pure::c18::check(),
        sim::c01::check(),
        sim::c02::check(),
        sim::c03::check(),
        sim::c05::check(),
        sim::c06::check(),
        sim::c07::check(),
        sim::c10::check(),
        sim::c11::check(),
        sim::c12::check(),
        sim::c13::check(),
        sim::c14::check(),
        sim::c16::check(),
        sim::c19::check(),
        sim::c20::check(),
        web::c15::check(),
        web::c17::check(),
    ]
}

fn main() {
    let args: Vec<String> = std::env::args().skip(1).collect();
    if args.is_empty() {
        eprintln!("usage: vh <PROPERTY> [--tier quick|thorough] [--seed N] [--out file] [--replay file]");
        std::process::exit(2);
    }
    let prop = args[0].clone();
    let mut tier = match std::env::var("VERIF_TIER").as_deref() {
        Ok("thorough") => Tier::Thorough,
        _ => Tier::Quick,
    };
    let mut seed: u64 = std::env::var("VERIF_SEED")
        .ok()
        .and_then(|s| s.parse().ok())
        .unwrap_or(1);
    let mut worker: Option<usize> = None;
    let mut of: usize = 1;
    let mut budget_s: Option<u64> = None;
    let mut workers_override: Option<usize> = None;
    let mut out: Option<String> = None;
    let mut replay: Option<String> = None;
    let mut extra: Vec<String> = vec![];
    let mut i = 1;
    while i < args.len() {
        let a = args[i].as_str();
        let mut val = || {
            i += 1;
            args.get(i).cloned().unwrap_or_default()
        };
        match a {
            "--tier" => {
                tier = if val() == "thorough" {
                    Tier::Thorough
                } else {
                    Tier::Quick
                }
            }
            "--seed" => seed = val().parse().unwrap_or(1),
            "--worker" => worker = val().parse().ok(),
            "--of" => of = val().parse().unwrap_or(1),
            "--budget-s" => budget_s = val().parse().ok(),
            "--workers" => workers_override = val().parse().ok(),
            "--out" => out = Some(val()),
            "--replay" => replay = Some(val()),
            other => extra.push(other.to_string()),
        }
        i += 1;
    }

    if let Ok(filter) = std::env::var("VH_LOG") {
        let _ = tracing_subscriber::fmt()
            .with_env_filter(tracing_subscriber::EnvFilter::new(filter))
            .with_writer(std::io::stderr)
            .try_init();
    }

    // child modes that are not property checks
    if let Some(code) = pure::child_mode(&prop, &extra) {
        std::process::exit(code);
    }

    let all = checks();
    let Some(check) = all.into_iter().find(|c| c.spec.prop == prop) else {
        eprintln!("unknown property {prop}");
        std::process::exit(2);
    };

    let budget = Duration::from_secs(budget_s.unwrap_or(tier.pick(check.budget.0, check.budget.1)));

    match worker {
        Some(w) => {
            let mut ctx = Ctx::new(&prop, tier, seed, w, of, budget, replay);
            ctx.extra = extra;
            (check.run)(&mut ctx);
            common::emit_report(&ctx);
            std::process::exit(0);
        }
        None => {
            let mut workers = workers_override.unwrap_or(tier.pick(check.workers.0, check.workers.1));
            let mut out = out.unwrap_or_else(|| format!("/verif/evidence/{prop}.json"));
            let mut extra = extra;
            // --replay <witness file>: re-run exactly the execution the witness names; the
            // evidence of a replay goes to scratch, never over the property's evidence file
            if let Some(path) = &replay {
                match std::fs::read_to_string(path).ok().and_then(|t| serde_json::from_str::<serde_json::Value>(&t).ok()) {
                    Some(w) => {
                        println!("REPLAY property={} signature={}", w["property"].as_str().unwrap_or("?"), w["signature"].as_str().unwrap_or("?"));
                        if let Some(es) = w["detail"]["exec_seed"].as_u64() {
                            extra.push("--exec-seed".into());
                            extra.push(es.to_string());
                            workers = 1;
                            out = format!("/verif/scratch/replay-{prop}.json");
                        } else {
                            // checks over pure functions: the witness holds the complete input
                            println!("REPLAY-WITNESS {}", serde_json::to_string(&w["detail"]).unwrap_or_default());
                            println!("REPLAY-NOTE the witness above is the complete input of the failing evaluation; the run below re-explores the same seed");
                            out = format!("/verif/scratch/replay-{prop}.json");
                        }
                    }
                    None => {
                        eprintln!("cannot read replay file {path}");
                        std::process::exit(2);
                    }
                }
            }
            let code = common::run_parent(
                &check.spec,
                &ParentArgs {
                    tier,
                    seed,
                    workers,
                    budget,
                    out,
                    replay,
                    extra,
                },
            );
            std::process::exit(code);
        }
    }
}
