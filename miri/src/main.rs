//! Pure-Rust paths of klukai-types driven under Miri (undefined-behaviour interpreter):
//! decoders on hostile bytes, pack/unpack round trips, the chunker, the sync-need
//! computation and the member table. Nothing here crosses FFI.
//!
//! usage: vh-miri <seed> <cases>      prints `MIRI-CASES n` and `MIRI-PANICS n ...`

use std::{collections::HashMap, ops::RangeInclusive, time::Duration};

use klukai_types::{
    actor::{Actor, ActorId, ClusterId},
    api::{ColumnName, SqliteValue, TableName},
    base::{CrsqlDbVersion, CrsqlSeq},
    broadcast::{BiPayload, BiPayloadV1, BroadcastV1, ChangeV1, Changeset, Timestamp, UniPayload, UniPayloadV1},
    change::{Change, ChunkedChanges},
    members::Members,
    pubsub::{pack_columns, unpack_columns},
    sync::{SyncMessage, SyncMessageV1, SyncNeedV1, SyncStateV1, SyncTraceContextV1},
};
use speedy::{Readable, Writable};
use uuid::Uuid;

struct Rng(u64);
impl Rng {
    fn next(&mut self) -> u64 {
        self.0 ^= self.0 << 13;
        self.0 ^= self.0 >> 7;
        self.0 ^= self.0 << 17;
        self.0
    }
    fn below(&mut self, n: u64) -> u64 {
        self.next() % n.max(1)
    }
    fn bytes(&mut self, n: usize) -> Vec<u8> {
        (0..n).map(|_| self.next() as u8).collect()
    }
}

fn value(r: &mut Rng) -> SqliteValue {
    match r.below(8) {
        0 => SqliteValue::Null,
        1 => SqliteValue::Integer(r.next() as i64 >> r.below(64)),
        2 => SqliteValue::Integer(((1u64 << r.below(63)) as i64).wrapping_add(r.below(3) as i64 - 1)),
        3 => SqliteValue::Real(klukai_types::api::Real(f64::from_bits(r.next()))),
        4 | 5 => {
            let n = [0usize, 1, 11, 12, 23, 24, 25, 40][r.below(8) as usize];
            SqliteValue::Text("é".repeat(n / 2).chars().chain("x".repeat(n % 2).chars()).collect::<String>().into())
        }
        _ => {
            let n = r.below(40) as usize;
            SqliteValue::Blob(r.bytes(n).into())
        }
    }
}

fn change(r: &mut Rng, seq: u64) -> Change {
    Change {
        table: TableName("t".into()),
        pk: pack_columns(&[value(r), value(r)]).unwrap_or_default(),
        cid: ColumnName("c".into()),
        val: value(r),
        col_version: r.below(5) as i64,
        db_version: CrsqlDbVersion(r.below(9)),
        seq: CrsqlSeq(seq),
        site_id: [r.next() as u8; 16],
        cl: r.below(4) as i64,
    }
}

fn actor(i: u8) -> ActorId {
    ActorId(Uuid::from_bytes([i; 16]))
}

fn valid_frames(r: &mut Rng) -> Vec<Vec<u8>> {
    let n = r.below(4);
    let cs = ChangeV1 {
        actor_id: actor(r.below(4) as u8),
        changeset: match r.below(3) {
            0 => Changeset::Empty {
                versions: CrsqlDbVersion(1)..=CrsqlDbVersion(1 + r.below(5)),
                ts: Some(Timestamp::from(r.next())),
            },
            _ => Changeset::Full {
                version: CrsqlDbVersion(r.below(9)),
                changes: (0..n).map(|i| change(r, i)).collect(),
                seqs: CrsqlSeq(0)..=CrsqlSeq(n),
                last_seq: CrsqlSeq(n + r.below(3)),
                ts: Timestamp::from(r.next()),
            },
        },
    };
    let mut state = SyncStateV1 {
        actor_id: actor(1),
        ..Default::default()
    };
    state.heads.insert(actor(2), CrsqlDbVersion(r.below(20)));
    state.need.insert(actor(2), vec![CrsqlDbVersion(1)..=CrsqlDbVersion(1 + r.below(4))]);
    state.partial_need.insert(actor(3), HashMap::from([(CrsqlDbVersion(2), vec![CrsqlSeq(0)..=CrsqlSeq(r.below(9))])]));
    vec![
        BroadcastV1::Change(cs.clone()).write_to_vec().unwrap(),
        UniPayload::V1 {
            data: UniPayloadV1::Broadcast(BroadcastV1::Change(cs.clone())),
            cluster_id: ClusterId(r.below(70000) as u16),
        }
        .write_to_vec()
        .unwrap(),
        BiPayload::V1 {
            data: BiPayloadV1::SyncStart {
                actor_id: actor(1),
                trace_ctx: SyncTraceContextV1::default(),
            },
            cluster_id: ClusterId(3),
        }
        .write_to_vec()
        .unwrap(),
        SyncMessage::V1(SyncMessageV1::Changeset(cs)).write_to_vec().unwrap(),
        SyncMessage::V1(SyncMessageV1::State(state)).write_to_vec().unwrap(),
        SyncMessage::V1(SyncMessageV1::Request(vec![(
            actor(2),
            vec![
                SyncNeedV1::Full {
                    versions: CrsqlDbVersion(1)..=CrsqlDbVersion(3),
                },
                SyncNeedV1::Partial {
                    version: CrsqlDbVersion(4),
                    seqs: vec![CrsqlSeq(0)..=CrsqlSeq(r.below(5))],
                },
            ],
        )]))
        .write_to_vec()
        .unwrap(),
    ]
}

fn mutate(r: &mut Rng, mut b: Vec<u8>) -> Vec<u8> {
    if b.is_empty() {
        return b;
    }
    for _ in 0..1 + r.below(3) {
        let i = r.below(b.len() as u64) as usize;
        match r.below(6) {
            0 => b[i] = r.next() as u8,
            1 => b.truncate(i),
            2 => {
                // a length prefix blown up
                let v = [0xffu8, 0xff, 0xff, 0x7f, 0xff, 0xff, 0xff, 0xff];
                for (k, x) in v.iter().enumerate() {
                    if i + k < b.len() {
                        b[i + k] = *x;
                    }
                }
            }
            3 => b[i] = [0x80, 0xC0, 0xD8, 0xFE, 0xFF][r.below(5) as usize],
            4 => {
                let k = r.below(8) as usize;
                let extra = r.bytes(k);
                b.extend(extra);
            }
            _ => {
                let j = r.below(b.len() as u64) as usize;
                b.swap(i, j);
            }
        }
        if b.is_empty() {
            break;
        }
    }
    b
}

fn decode_all(b: &[u8]) {
    let _ = BroadcastV1::read_from_buffer(b);
    let _ = UniPayload::read_from_buffer(b);
    let _ = BiPayload::read_from_buffer(b);
    let _ = SyncMessage::read_from_buffer(b);
    if let Ok(v) = unpack_columns(b) {
        // touching the borrowed values is what would hit a bad pointer
        for x in v {
            let _ = format!("{:?}", x.to_owned());
        }
    }
}

fn main() {
    let args: Vec<String> = std::env::args().collect();
    let seed: u64 = args.get(1).and_then(|s| s.parse().ok()).unwrap_or(1);
    let cases: u64 = args.get(2).and_then(|s| s.parse().ok()).unwrap_or(50);
    let mut r = Rng(seed.wrapping_mul(0x9E3779B97F4A7C15) | 1);
    std::panic::set_hook(Box::new(|_| {}));
    let mut panics: Vec<String> = vec![];
    let mut n = 0u64;
    for case in 0..cases {
        // 1. hostile bytes into every decoder
        for f in valid_frames(&mut r) {
            let m = mutate(&mut r, f.clone());
            for input in [f, m] {
                n += 1;
                if let Err(p) = std::panic::catch_unwind(|| decode_all(&input)) {
                    let msg = p.downcast_ref::<String>().cloned().or_else(|| p.downcast_ref::<&str>().map(|s| s.to_string())).unwrap_or_default();
                    panics.push(format!("decode case {case}: {msg}"));
                }
            }
        }
        let k = r.below(64) as usize;
        let raw = r.bytes(k);
        n += 1;
        if std::panic::catch_unwind(|| decode_all(&raw)).is_err() {
            panics.push(format!("decode raw case {case}"));
        }
        // 2. pack / unpack round trip
        let vals: Vec<SqliteValue> = (0..1 + r.below(4)).map(|_| value(&mut r)).collect();
        if let Ok(packed) = pack_columns(&vals) {
            n += 1;
            match unpack_columns(&packed) {
                Ok(back) => {
                    let back: Vec<SqliteValue> = back.iter().map(|x| x.to_owned()).collect();
                    let same = back.len() == vals.len()
                        && back.iter().zip(vals.iter()).all(|(a, b)| match (a, b) {
                            (SqliteValue::Real(x), SqliteValue::Real(y)) => x.0.to_bits() == y.0.to_bits(),
                            _ => a == b,
                        });
                    if !same {
                        panics.push(format!("round trip differs: {vals:?} -> {back:?}"));
                    }
                }
                Err(e) => panics.push(format!("round trip failed: {vals:?}: {e}")),
            }
        }
        // 3. chunker
        {
            let last = r.below(8);
            let seqs: Vec<u64> = (0..=last).filter(|_| r.below(3) != 0).collect();
            let items: Vec<rusqlite_result::R> = seqs.iter().map(|s| Ok(change(&mut r, *s))).collect();
            let limit = [0usize, 1, 80, 400, 100_000][r.below(5) as usize];
            let mut end = None;
            for x in ChunkedChanges::new(items.into_iter(), CrsqlSeq(0), CrsqlSeq(last), limit).flatten() {
                end = Some(x.1.end().0);
                n += 1;
            }
            if end != Some(last) {
                panics.push(format!("chunker ended at {end:?} instead of {last}"));
            }
        }
        // 4. sync needs
        {
            let mk = |r: &mut Rng, me: u8| {
                let mut s = SyncStateV1 {
                    actor_id: actor(me),
                    ..Default::default()
                };
                for a in 5..5 + r.below(3) as u8 {
                    let head = r.below(6);
                    if head > 0 {
                        s.heads.insert(actor(a), CrsqlDbVersion(head));
                        if r.below(2) == 0 {
                            let x = 1 + r.below(head);
                            s.need.insert(actor(a), vec![CrsqlDbVersion(x)..=CrsqlDbVersion(x)]);
                        } else if head > 1 {
                            let ranges: Vec<RangeInclusive<CrsqlSeq>> = vec![CrsqlSeq(r.below(3))..=CrsqlSeq(3 + r.below(3))];
                            s.partial_need.insert(actor(a), HashMap::from([(CrsqlDbVersion(head), ranges)]));
                        }
                    }
                }
                s
            };
            let (a, b) = (mk(&mut r, 1), mk(&mut r, 2));
            n += 1;
            if std::panic::catch_unwind(|| a.compute_available_needs(&b)).is_err() {
                panics.push(format!("compute_available_needs panicked: {a:?} vs {b:?}"));
            }
        }
        // 5. members
        {
            let mut m = Members::default();
            for _ in 0..r.below(10) {
                let who = 1 + r.below(3) as u8;
                let addr = format!("10.0.0.{}:70{}", 1 + r.below(2), r.below(2)).parse().unwrap();
                let a = Actor::new(actor(who), addr, Timestamp::from(r.below(5) << 32), ClusterId(r.below(2) as u16));
                match r.below(3) {
                    0 => {
                        m.add_member(&a);
                    }
                    1 => {
                        m.remove_member(&a);
                    }
                    _ => m.add_rtt(addr, Duration::from_millis(r.below(400))),
                }
                let _ = m.ring0(ClusterId(0)).count();
                n += 1;
            }
        }
    }
    println!("MIRI-CASES {n}");
    println!("MIRI-PANICS {}", panics.len());
    for p in panics.iter().take(5) {
        println!("MIRI-PANIC {p}");
    }
}

mod rusqlite_result {
    pub type R = Result<klukai_types::change::Change, rusqlite::Error>;
}
