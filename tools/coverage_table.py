#!/usr/bin/env python3
"""Prints the table of DESIGN.md §0.75 from evidence/ and evidence-thorough/."""
import json, os
def row(d, p):
    f = f"/verif/{d}/{p}.json"
    if not os.path.exists(f):
        return "-"
    e = json.load(open(f))
    c = e["coverage"]
    wall = e.get("wall_s") or c.get("wall_s") or e.get("duration_s") or 0
    return f"{c['evaluations']} / {c['distinct_nontrivial']} / {round(wall)}"
print("| prop | quick: evaluations / distinct non-trivial / s | thorough: evaluations / distinct non-trivial / s |")
print("|------|------|------|")
for i in range(1, 21):
    p = f"C{i:02d}"
    print(f"| {p} | {row('evidence', p)} | {row('evidence-thorough', p)} |")
