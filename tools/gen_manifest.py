#!/usr/bin/env python3
"""Generate /verif/MANIFEST.json from the table below (kept in one place so the
manifest, the driver and DESIGN.md stay consistent)."""
import json, subprocess, sys, os

HERE = os.path.dirname(os.path.dirname(os.path.abspath(__file__)))

TRUST = "cr-sqlite merge semantics and SQLite are trusted; hooks are inert unless configured; held = no oracle fired on the executions produced by this run (see evidence), not a proof"

# id -> (claimed?, category, technique, text, design_ref, note)
CHECKS = {
    "C04": (True, "exploration", "differential testing of compute_available_needs against a set model (bounded-exhaustive small scope + seeded random states)",
            "Runtime monitor over the real compute_available_needs: every generated pair of well-formed sync states is checked for completeness (everything the peer fully holds and we lack / hold partially is requested) and boundedness (within the peer's head, never our own actor) against an independent set model. The small scope (1 foreign actor, heads<=3, 8 classes per version) is enumerated completely; larger states are sampled.",
            "§3-C04", "states are well-formed (as produced by generate_sync); over-asking inside the head is recorded, not judged"),
    "C08": (True, "exploration", "tiling-predicate oracle over the real ChunkedChanges iterator and chunk_range (bounded-exhaustive + seeded random)",
            "Runtime monitor: the tiling predicate (contiguous, non-overlapping, starts at start, ends at last, every change exactly once and inside its chunk's range, order kept, no empty non-final chunk) is evaluated on everything the real iterator yields for all seq subsets over start<=3,last<=7 x 6 size limits (complete), limits changed between chunks, iterator errors, and random lists up to 10^4 changes; chunk_range is checked for exact union over small-scope-complete and random ranges.",
            "§3-C08", "start<=last, strictly increasing seqs inside [start,last]; chunk size >= 1"),
}

CHECKS.update({
    "C01": (True, "exploration", "SimCluster over the real ingest/sync code with seeded histories and delivery schedules; oracles: pairwise digests, reference merge, value provenance",
            "Runtime monitor: 2-4 real nodes (real setup(), SQLite, cr-sqlite, QUIC sync) whose broadcast chunks the harness captures and delivers under a seeded hostile schedule (reorder, duplicate, drop, re-chunk, batch, relay), then real sync sessions over all ordered pairs until a fixpoint (bounded: N+3 rounds). After the fixpoint every node's tables and per-cell (col_version, cl) must equal each other and a reference merge of the complete change lists, and every visible value must stem from an acknowledged transaction.",
            "§3-C01", "bounded liveness restatement (fixpoint within N+3 rounds); known finding F15 recorded in known_findings.json"),
    "C09": (True, "exploration", "round-trip and differential oracles over the real codecs + hostile-bytes decoding in RLIMIT'd child processes with a counting allocator + Miri (undefined-behaviour interpreter) over the pure-Rust decode/pack/chunk/need/member paths + valgrind memcheck over the decode child",
            "Runtime monitor: every protocol type/variant is encoded, decoded by the real entry points and re-encoded (byte equality, value equality for HashMap-bearing states); pack_columns is compared byte-for-byte with the loaded extension's crsql_pack_columns and round-tripped through unpack_columns; structure-aware hostile inputs (tags, 32/64-bit length attacks, truncations, splices, UTF-8 damage, random) are decoded in child processes where panics, signals, aborts, allocation beyond 64*len+64KiB and invalid UTF-8 text are observed.",
            "§3-C09", "inputs up to ~2 MiB executed; allocation bound is the stated reading of 'memory unrelated to the input size'"),
    "C18": (True, "exploration", "reference fold-by-newest-identity + ring model compared with the real Members after every step (small-scope complete + seeded random)",
            "Runtime monitor: sequences of up/down notifications and RTT samples (restricted to what SWIM can emit) are applied to the real Members and to a 25-line reference fold; presence, address, cluster, ring bucket and ring0() selection are compared after every step.",
            "§3-C18", "foca 0.19 notification contract; identity = (actor, timestamp) with one address and cluster"),
})

CHECKS.update({
    "C03": (True, "exploration", "SimCluster receiver observed after every delivery/apply step; tag all-or-nothing, applied=>covered, covered+drained=>applied, buffers cleared, final==reference",
            "Runtime monitor: origin transactions of k tagged rows are cut by the harness into partitions, overlapping, duplicated, contained and single-change chunks and delivered to a real node in seeded orders/batchings mixed with other versions and actors; the node's tables are read after every delivery and apply step (per-tag row count in {0,k}; visible => delivered seq ranges cover 0..=last_seq), and after draining the apply triggers (known from the pmc.apply_trigger hook) and the real clear loop everything must be visible, buffers and partial records gone, and the result equal to the unchunked reference.",
            "§3-C03", "bounded restatement of 'eventually' (same execution, after apply/clear drained); relay-supplied chunks with holes are exercised by C01's workload"),
})

CHECKS.update({
    "C02": (True, "exploration", "set-model monitor over the real BookedVersions/gap table (layer 1) and over a real node's generate_sync vs the harness's delivery record and vs BookedVersions::from_conn (layer 2), after every step",
            "Runtime monitor in two layers. Layer 1 drives snapshot/insert_db/commit|rollback/reload sequences on the real bookkeeping code with the real migrations and compares in-memory needed, persisted gap rows (disjoint, non-adjacent, inside 1..head), head and contains_version with a set model after every step (small scope enumerated). Layer 2 feeds a real node through process_multiple_changes with real origins' chunks (complete, partial in any order, re-chunked, duplicated, omitted, empties) plus buffered applies and clears, and after every call checks that the advertised state splits 1..head exactly into held / needed / partial-with-exact-missing-ranges according to what was delivered, and equals the state rebuilt from the database.",
            "§3-C02", "stale buffered rows of a version meanwhile stored completely are tolerated while their clear request is still pending in the harness (the agent removes them asynchronously); failing storing transactions are covered by layer 1 rollbacks and C06 crash images"),
    "C05": (True, "exploration", "per-class expectation computed from a direct read of the server's tables, compared with what the real handle_need / serve_sync send (in-process and scripted QUIC client)",
            "Runtime monitor: a real node is driven into mixed states (live, overwritten, cleared, partially buffered, fully buffered unapplied, gaps); seeded full and partial needs within its advertised heads are answered by the real handle_need in-process and by the real serve_sync over QUIC to a scripted client; every answered version is judged by class: live => chunks tile 0..=highest live seq and carry exactly the live rows, no live changes => declared empty, buffered => exactly the buffered ranges/rows, gap => silence, and every change lies inside its changeset's range.",
            "§3-C05", "requests within the advertised heads; known finding F15 (duplicate seq) recorded"),
})

CHECKS.update({
    "C07": (True, "exploration", "request-level monitor over the real api_v1_transactions handler: injected statement failures, no-ops, multi-chunk writes, concurrent clients with hook delays; oracles on status/version/broadcast/tables + plain-SQLite replay",
            "Runtime monitor: seeded request sequences (failures at first/middle/last statement of six kinds incl. timeout, no-ops, up to 20000 cell changes) are submitted to one real node sequentially or from 2-32 concurrent tasks with delays injected at the commit hook; every failed request must leave no value, version or change message behind, acknowledged versions must be consecutive and duplicate-free, captured broadcast chunks must tile 0..=last_seq and carry exactly the written cells, the node must never list a gap for itself, and the final tables must equal a replay of the acknowledged requests in version order on a plain SQLite database.",
            "§3-C07", "interleavings are sampled (delay injection at local.after_commit), not enumerated"),
    "C10": (True, "exploration", "overload/re-offer monitor over the real handle_changes loop with hook gauges for logical idleness; state-based oracle (held after <=3 idle re-offer rounds; claimed => stored)",
            "Runtime monitor: one real node runs the real handle_changes loop with small queues while the harness holds the write connection so the queue overflows under traffic from 1-4 actors (complete, multi-chunk, duplicate changesets); afterwards everything not held is re-offered the way sync would, with logical idleness between rounds (received == sent, queue and in-flight empty, apply triggers drained). A changeset still not held after 3 idle rounds is lost for good; anything bookkeeping claims must be in the table or the buffer.",
            "§3-C10", "bounded restatement: 3 idle re-offer rounds; one ingest loop per process"),
})

CHECKS.update({
    "C06": (True, "fault_enumeration", "file-level crash images taken inside every commit hook of a seeded history, each booted with the real start_with_config; oracles on the rebuilt sync state, start-up apply scheduling, and convergence with a per-crash-point reference",
            "Runtime monitor with fault enumeration: during a seeded history (local writes, complete/partial deliveries, buffered applies, clears) on a victim node, every hit of a commit hook (after the commit that stores data, before the in-memory update) yields a crash image (db + WAL copied while the single write connection is still held). Each sampled image is booted with the real start-up path and checked: acknowledged own transactions present (own head), no gap in own versions, nothing advertised as held that the live node did not hold after that commit, every completely buffered version scheduled (hook) and applied, and after real sync sessions with the origins the restarted node equals the reference merge of everything acknowledged up to the crash point.",
            "§3-C06", "crash = process death on an intact OS/disk; images are in-process copies (a real-kill cross-check is future work); a lower claim after restart is allowed by the statement and only counted"),
})

CHECKS.update({
    "C20": (True, "exploration", "stress of the real write queue, bookkeeping locks and agent writers under seeded hook delays; offline checker over the hook event log (exclusivity gauge, priority as happens-before on sequence numbers) + heartbeat-confirmed stall detection",
            "Runtime monitor: 3-64 requesters on the three write queues (holds, cancellation while queued/holding) run concurrently with local transactions, process_multiple_changes for several actors, buffered applies, generate_sync readers and clears on one real node, with seeded delays at every write-queue/lock/commit hook. The hook log is checked offline: never two live WriteConn values (gauge sampled at each permit, holder intervals disjoint), the first grant after a release never bypasses an eventually-granted higher-priority request whose enqueue completed before that release, all tasks complete; 30 s without progress under a live supervising task with blocked lock-registry entries is reported as a deadlock.",
            "§3-C20", "sampled interleavings; priority judged at release points only; the lock-order-graph directed scheduling of DESIGN §3-C20 is not built"),
})

CHECKS.update({
    "C15": (True, "exploration", "model-generated schema submissions (allowed and forbidden edits) through the real api_v1_db_schema on a node holding data; before/after snapshots of sqlite_schema, __corro_schema, contents and the in-memory schema; init_schema(db) vs in-memory; real restarts",
            "Runtime monitor: a model of the accepted table definitions generates submissions with one seeded edit each (12 forbidden kinds incl. primary-key reorder/extension, dropped/changed columns, late syntax error, valid table followed by a rejected one; 6 allowed kinds); after every submission the monitor checks that nothing that existed was lost or redefined, that a non-200 answer left database and in-memory schema identical, that the in-memory schema equals the one parsed from the database (what a restart loads), that re-applying changes nothing, and restarts the node on the same files at random points.",
            "§3-C15", "crash exactly between the schema commit and the in-memory swap is covered by the in-memory == stored comparison after each submission, not by crash images"),
    "C17": (True, "exploration", "raw HTTP requests against a live API listener: route x method x Authorization-shape matrix with effect-bearing bodies; SQL corpus + seeded mutations on the read endpoints; status and before/after digests",
            "Runtime monitor: a full agent (real router, middleware, handlers) is probed with every route and probing paths x 7 methods x ~25 Authorization shapes derived from a random token (prefixes, suffixes, superstrings, case flips, other schemes), each request carrying a body that would change state if admitted; without the exact bearer token the status must be 4xx and the state digests unchanged, with it never 401/403, and without a configured token never 401. Then ~70 write/DDL/PRAGMA/ATTACH/VACUUM/extension-function statements and their seeded mutations are sent to /v1/queries and /v1/subscriptions and tables, cell metadata, bookkeeping, sqlite_schema, crsql_db_versions, user_version and the file set next to the database must stay identical.",
            "§3-C17", "lower-case scheme, repeated spaces after the scheme and duplicated headers are recorded, not judged"),
})
CHECKS["C11"] = (True, "exploration", "real node + real api_v1_subs/matcher tasks under generated query templates x histories (local, remote complete, remote chunked/buffered); quiescence from hook log; oracle = user's SELECT re-run vs materialised rows vs fold of the event stream",
    "Runtime monitor: 3-6 concurrent subscriptions from 19 query templates (filters, expressions, CASE/BETWEEN/LIKE/IN, key-only projections, INNER and LEFT joins over 2-3 tables, aliases, composite and nullable-side keys) on one real node; histories of local transactions and of changesets authored by a second real node, delivered complete or cut into chunks (buffered apply), in any order; at logical matcher quiescence (hook log: match.sent == match.recv and idle) the monitor compares the materialised rows with the query re-run on the node database, the fold of the stream (rows + change events, by row id) with the materialised rows, checks change ids +1, update events that change nothing, insert/delete events for present/absent row ids, and events emitted although no table changed.",
    "§3-C11", "LEFT JOIN divergence after a nullable-side-only change is the known finding F7; histories that keep nullable-side changes together with the joined left-hand rows judge LEFT JOIN strictly")
CHECKS["C14"] = (True, "exploration", "real node + real api_v1_updates listeners under generated histories (local, remote complete / chunked / late / out of order); quiescence and the set of notifications handed out from the hook log; oracle = per-operation table snapshots vs notifications, per-key fold vs row existence, causal lengths per key",
    "Runtime monitor: update-feed listeners on 1-3 tables of one real node; histories over few keys with inserts, updates, deletes, re-inserts and key changes applied locally and merged from a second real node in any arrival order and batching; at logical quiescence of the feed task the monitor reads exactly the notifications the upd.notify hook announced and checks that every key whose row differs between the snapshots around an operation was notified, that the last notification of every key says delete iff the row is absent, and that the causal lengths behind the notifications of one key never decrease.",
    "§3-C14", "cache roll-over (more than 2000 keys) is not reached by the quick tier's key domain")
CHECKS["C12"] = (True, "exploration", "real node, real api_v1_subs / api_v1_sub_by_id / catch_up_sub under a concurrent writer, attach/resume at seeded moments with seeded delays at hook points; every attached stream recorded at the client side and judged against the stream of the first subscriber; scripted HTTP/2 server streams with seeded anomalies against the real klukai-client SubscriptionStream",
    "Runtime monitor: while a writer commits bursts of 1-1500 changed rows, 2-8 subscriber tasks attach 2-4 times each (from scratch, skip_rows, from=N anywhere in the log, GET by id or POST of the same SQL) with seeded delays inside catch_up_sub, its queue task, and between the matcher's event emission and commit; each attached stream is compared with the primary stream: snapshot == fold of the primary up to the snapshot's change id, first id right after the snapshot / N, ids +1, every change identical to the primary's change of that id, no duplicates, nothing after a gap. The client library is fed scripted streams with a gap, duplicate or backward id and must yield MissedChange exactly there.",
    "§3-C12", "executions are real concurrency: a given exec seed fixes the schedule of requests and delays, not the interleaving; pruned change logs and resume points beyond the newest id are outside")
CHECKS["C16"] = (True, "exploration", "real node (gossip server, handle_changes, broadcast runtime_loop, handle_sync) + real friend node + scripted foreign peer writing frames on real QUIC streams + UDP sockets as foreign members; oracle over the node's tables, the first message of each sync session and packets reaching foreign members; cluster id switched at run time",
    "Runtime monitor: uni streams whose frames each declare their own cluster id (other ids, the node's, or truncated before the id) closed by marker frames so that the stream's handling is observable; sync sessions declaring every kind of id; outgoing broadcasts and handle_sync rounds with a member table mixing clusters (foreign members are UDP sockets, some with ring-0 samples); the node's cluster id is switched at run time with all connections open and everything repeated. A row is in the node's table iff its frame declared the node's current cluster, a foreign session gets Rejection(DifferentCluster) and nothing else, and no packet reaches a foreign member.",
    "§3-C16", "the SWIM exchange itself is not run: members are written into the table directly")
CHECKS["C13"] = (True, "fault_enumeration", "real node with subscriptions; crash images (database + subscription databases) copied by hook callbacks at the points of a subscription's life and booted through the real start-up path; shutdown in the binary's order with in-flight transactions; restart on the same files; oracle over HTTP-handler answers, subscription directories, rows vs query, change log continuity",
    "Runtime monitor: images at sub.created, sub.initial_committed, n-th match.before_commit, running-idle, sub.draining and sub.completed are each booted with the real setup path: a subscription is served only from an image taken after it completed (then rows == query), otherwise GET by id is 404 and its directory is gone. The clean path reproduces `corrosion agent`'s shutdown order (tripwire, in-flight requests finish, drop_handles, wait for counted tasks) and checks after restart: same id, rows == query, snapshot change id == newest id of the log >= last id delivered before, resume replays identical changes, next change gets the next id.",
    "§0.1/§3-C13", "the binary's signal handling and shutdown sequencing are reproduced in process, not executed; divergence caused by transactions committing during shutdown is the known finding F23")
CHECKS["C19"] = (True, "exploration", "real nodes as source/destination, real `corrosion backup` / `corrosion restore` subprocesses, real node started on the restored files; oracle = crsql_changes maps incl. authoring site ids; plus sqlite3_restore::restore over a live file with reader processes",
    "Runtime monitor: (1) a source node holding changes of two or three authors (deletions, chunked remote versions) is backed up and restored onto an absent path or another node's files (plain, --self-actor-id, --actor-id); the backup must carry no self ordinal, no clock rows with ordinal 0 and no membership rows; the node started on the restored files must expose exactly the source's cells with the same values, versions, causal lengths and authoring site ids, have the requested actor id, no subscription directory of the old destination, and attribute a new write to itself. (2) sqlite3_restore::restore replaces a WAL (with uncheckpointed frames) or rollback-journal database by one of another size while 2-4 reader processes read two tables per read transaction: every successful read is entirely old or entirely new, and the file afterwards is entirely new (or untouched when the call fails).",
    "§0.1/§3-C19", "restore while a corrosion agent has the destination open is refused by the command itself (admin socket check) and is not exercised")

NOT_YET = {
}

ALL = ["C%02d" % i for i in range(1, 21)]


def main():
    hooks_commits = []
    try:
        out = subprocess.check_output(["git", "-C", "/repo", "log", "--format=%H %s"], text=True)
        for line in out.splitlines():
            h, _, s = line.partition(" ")
            if s.startswith("verif-hooks:"):
                hooks_commits.append(h)
    except Exception:
        pass
    checks = []
    na = []
    for pid in ALL:
        if pid in CHECKS and CHECKS[pid][0]:
            _, cat, tech, text, ref, note = CHECKS[pid]
            checks.append({
                "property_id": pid,
                "quick_cmd": f"./check {pid} quick",
                "thorough_cmd": f"./check {pid} thorough",
                "evidence_file": f"/verif/evidence/{pid}.json",
                "replay_cmd_template": f"./check {pid} quick --replay {{path}}",
                "engine": "vh",
                "level_claimed": {"category": cat, "text": text, "design_ref": ref},
                "level_note": note + "; " + TRUST,
                "technique": "runtime monitoring: " + tech,
            })
        else:
            na.append({"property_id": pid, "reason": NOT_YET.get(pid, "check not built yet in this round; the design for it is in DESIGN.md §3 and it stays unclaimed until its monitor exists and is silent on the unchanged tree")})
    manifest = {
        "version": 1,
        "setup_cmd": "cd /verif/harness && CARGO_NET_OFFLINE=true CARGO_TARGET_DIR=/verif/target cargo build --offline && cd /verif/miri && CARGO_NET_OFFLINE=true MIRIFLAGS=-Zmiri-disable-isolation cargo +nightly miri run -q -- 1 0",
        "hooks": {
            "guard": "cargo feature verif-hooks (klukai-types, klukai-agent, klukai)",
            "enable": "the harness crate /verif/harness depends on /repo/crates/klukai-{types,agent} by path with features=[\"verif-hooks\"]; the corrosion binary is built with `cargo build -p klukai --features verif-hooks`",
            "baseline_off_cmd": "cd /repo && cargo nextest run --workspace --no-fail-fast --tool-config-file pb:/w/lib/nextest.toml --profile pb --test-threads 8 --offline || cargo test --workspace --no-fail-fast --offline",
            "source_commits": hooks_commits,
            "add_only": True,
        },
        "engines": [
            {"name": "vh", "path": "/verif/harness", "serves_properties": [c["property_id"] for c in checks],
             "kind_free_text": "Rust harness binary linking the real klukai crates (feature verif-hooks): seeded workload generators, in-process monitors/oracles, worker processes, evidence writer"},
        ],
        "checks": checks,
        "not_applicable": na,
        "notes": "All checks are runtime monitors over executions of the real code built from /repo's working tree; verdicts are three-valued (held / VIOLATION / INCONCLUSIVE=exit 2). Known findings: /verif/known_findings.json. Seeded breaks and which check catches them: /verif/seeded/ and DESIGN.md.",
    }
    with open(os.path.join(HERE, "MANIFEST.json"), "w") as f:
        json.dump(manifest, f, indent=1)
        f.write("\n")
    # validate
    try:
        import jsonschema
        schema = json.load(open("/root/.vp/MANIFEST.schema.json"))
        jsonschema.validate(manifest, schema)
        print("MANIFEST.json valid;", len(checks), "claimed,", len(na), "not claimed")
    except ImportError:
        print("jsonschema not importable; wrote MANIFEST.json unvalidated")


if __name__ == "__main__":
    main()
