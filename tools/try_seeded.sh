#!/usr/bin/env bash
# tools/try_seeded.sh <seeded-id> <PROP> [<PROP>...]
# Applies /verif/seeded/<id>/patch.diff to /repo, runs the quick checks named, prints their
# verdict lines, and ALWAYS restores /repo afterwards (git checkout -- .).
set -u
ID="$1"; shift
HERE="$(cd "$(dirname "$0")/.." && pwd)"
PATCH="$HERE/seeded/$ID/patch.diff"
cd /repo || exit 2
if ! git diff --quiet; then echo "/repo has uncommitted changes, refusing"; exit 2; fi
if ! git apply --check "$PATCH" 2>/dev/null; then
  echo "patch does not apply cleanly, trying 3-way"; 
  if ! git apply --3way "$PATCH"; then echo "PATCH-DOES-NOT-APPLY $ID"; git checkout -- . ; exit 2; fi
  git reset -q
else
  git apply "$PATCH"
fi
trap 'cd /repo && git checkout -- . && echo "[/repo restored]"' EXIT
cd "$HERE"
for P in "$@"; do
  echo "=== $ID vs $P (seed ${VERIF_SEED:-1})"
  ./check "$P" "${TIER:-quick}" --out "$HERE/scratch/seeded-$ID-$P.json" 2>/dev/null | grep -E "^(SUMMARY|VIOLATION|INCONCLUSIVE|KNOWN-FINDING|BUILD-FAILED)" | cut -c1-400
  python3 - "$HERE/scratch/seeded-$ID-$P.json" <<'PY'
import json,sys
try:
    e=json.load(open(sys.argv[1])); print("  signatures:", e['coverage'].get('violation_signatures'))
except Exception as ex: print("  (no evidence)", ex)
PY
done
